(* Stage L2 of the log-layer proofs (property C05): log matching, leader
   append-only, committed prefix immutable, for the abstract protocol P/Log.v. *)
From RV Require Import Base.Prelude M.Quorum M.QuorumProofs P.Election P.ElectionProofs P.Log.

Local Open Scope N_scope.

(* ------------------------------------------------------------------ *)
(** * Lists of entries *)

Lemma ent_eqb_eq a b : ent_eqb a b = true <-> a = b.
Proof.
  unfold ent_eqb. destruct a as [a1 a2], b as [b1 b2]. cbn. split.
  - intros H. apply andb_prop in H. destruct H as [H1 H2]. apply N.eqb_eq in H1, H2. congruence.
  - intros H. inversion H; subst. rewrite !N.eqb_refl. reflexivity.
Qed.

Lemma log_eqb_eq a b : log_eqb a b = true <-> a = b.
Proof.
  revert b. induction a as [|x a IH]; intros [|y b]; cbn; split; intros H; try congruence; try discriminate.
  - apply andb_prop in H. destruct H as [H1 H2]. apply ent_eqb_eq in H1. apply IH in H2. congruence.
  - inversion H; subst. apply andb_true_intro. split; [apply ent_eqb_eq; reflexivity|apply IH; reflexivity].
Qed.

Lemma is_prefix_spec a b : is_prefix a b = true <-> exists s, b = a ++ s.
Proof.
  revert b. induction a as [|x a IH]; intros b; cbn.
  - split; [intros _; exists b; reflexivity|reflexivity].
  - destruct b as [|y b].
    + split; [discriminate|intros [s Hs]; discriminate].
    + split.
      * intros H. apply andb_prop in H. destruct H as [H1 H2]. apply ent_eqb_eq in H1. apply IH in H2.
        destruct H2 as [s Hs]. exists s. cbn. congruence.
      * intros [s Hs]. cbn in Hs. inversion Hs; subst. apply andb_true_intro.
        split; [apply ent_eqb_eq; reflexivity|apply IH; exists s; reflexivity].
Qed.

Lemma is_prefix_false a b : is_prefix a b = false <-> ~ exists s, b = a ++ s.
Proof.
  rewrite <- is_prefix_spec. destruct (is_prefix a b); split; intros; congruence.
Qed.

Lemma firstn_app_le {A} (j : nat) (L X : list A) : (j <= length L)%nat -> firstn j (L ++ X) = firstn j L.
Proof.
  intros H. rewrite firstn_app. replace (j - length L)%nat with 0%nat by lia. cbn. apply app_nil_r.
Qed.

Lemma firstn_firstn_le {A} (j m : nat) (L : list A) : (j <= m)%nat -> firstn j (firstn m L) = firstn j L.
Proof. intros H. rewrite firstn_firstn. f_equal. lia. Qed.

Lemma prefix_firstn {A} (a b s : list A) : b = a ++ s -> firstn (length a) b = a.
Proof. intros ->. rewrite firstn_app_le by lia. apply firstn_all. Qed.

Lemma firstn_prefix {A} (n : nat) (b : list A) : exists s, b = firstn n b ++ s.
Proof. exists (skipn n b). symmetry. apply firstn_skipn. Qed.

(* agreement up to k transfers to shorter prefixes *)
Lemma firstn_eq_le {A} (j k : nat) (a b : list A) : (j <= k)%nat -> firstn k a = firstn k b -> firstn j a = firstn j b.
Proof.
  intros Hjk H. rewrite <- (firstn_firstn_le j k a Hjk), <- (firstn_firstn_le j k b Hjk). congruence.
Qed.

Lemma nth_error_firstn_lt {A} (m j : nat) (L : list A) : (j < m)%nat -> nth_error (firstn m L) j = nth_error L j.
Proof.
  revert j L. induction m as [|m IH]; intros j L H; [lia|].
  destruct L as [|x L]; [reflexivity|]. destruct j as [|j]; [reflexivity|]. cbn. apply IH. lia.
Qed.

Lemma term_at_firstn L m j : (j <= m)%nat -> term_at (firstn m L) j = term_at L j.
Proof.
  intros H. destruct j as [|j]; [reflexivity|]. cbn. rewrite nth_error_firstn_lt by lia. reflexivity.
Qed.

Lemma term_at_app_l L X j : (j <= length L)%nat -> term_at (L ++ X) j = term_at L j.
Proof.
  intros H. destruct j as [|j]; [reflexivity|]. cbn. rewrite nth_error_app1 by lia. reflexivity.
Qed.

Lemma term_at_app_last L e : term_at (L ++ [e]) (S (length L)) = eterm e.
Proof. cbn. rewrite nth_error_app2 by lia. rewrite Nat.sub_diag. reflexivity. Qed.

(* the term at j only depends on the first j entries *)
Lemma term_at_firstn_eq a b j : firstn j a = firstn j b -> term_at a j = term_at b j.
Proof.
  intros H. rewrite <- (term_at_firstn a j j), <- (term_at_firstn b j j) by lia. congruence.
Qed.

Lemma nth_error_firstn_eq {A} (a b : list A) k j : (j < k)%nat -> firstn k a = firstn k b -> nth_error a j = nth_error b j.
Proof.
  intros Hj H. rewrite <- (nth_error_firstn_lt k j a Hj), <- (nth_error_firstn_lt k j b Hj). congruence.
Qed.

(* ------------------------------------------------------------------ *)
(** * Election layer: shape of a step, leaders' votes are durable *)

Section ElectionFacts.
  Variables (inc out : list N).
  Hypothesis inc_nonempty : inc <> [].
  Hypothesis Hmulti : no_single_quorum inc out.

  Notation prule := (prule inc out).
  Notation reachable := (reachable inc out).

  (* how the acting node's role / term / liveness can change in one step *)
  Inductive node_change (p p' : pnode) : Prop :=
  | nc_same : p_role p' = p_role p -> p_term p' = p_term p -> p_up p' = p_up p -> node_change p p'
  | nc_pf : p_role p' = PF -> (p_up p = true -> p_up p' = true -> p_term p <= p_term p') -> node_change p p'
  | nc_camp : p_role p' = PC -> p_term p' = p_term p + 1 -> node_change p p'.

  Lemma prule_shape l s s' : prule l s = Some s' ->
    exists k p', (forall x, nodes s' x = if x =? k then p' else nodes s x) /\
      ((leaders s' = leaders s /\ node_change (nodes s k) p') \/
       (p_role (nodes s k) = PC /\ p_role p' = PL /\ p_term p' = p_term (nodes s k) /\ p_up p' = true /\
        l = LBecomeLeader k /\
        forall t, leaders s' t = if t =? p_term (nodes s k) then k :: leaders s t else leaders s t)).
  Proof.
    intros H.
    assert (Hid : forall k x, nodes s x = if x =? k then nodes s k else nodes s x).
    { intros k x. destruct (N.eqb_spec x k) as [->|]; reflexivity. }
    destruct l as [k|k|k|k t|k c t|k t|k t|c k|c|k t|k|k|k]; cbn [Election.prule] in H.
    - destruct (p_up (nodes s k) && negb (k =? 0)); [|discriminate]. inversion H; subst; clear H.
      eexists k, _. split; [reflexivity|]. left. split; [reflexivity|]. apply nc_camp; reflexivity.
    - destruct (p_up (nodes s k)) eqn:Hup; [|discriminate]. inversion H; subst; clear H.
      eexists k, _. split; [reflexivity|]. left. split; [reflexivity|]. apply nc_same; cbn; auto.
    - destruct (p_imgs (nodes s k)) as [|[t c] rest]; [discriminate|].
      destruct (p_up (nodes s k)) eqn:Hup; [|discriminate]. inversion H; subst; clear H.
      eexists k, _. split; [intros x; destruct (c =? 0); reflexivity|]. left.
      split; [destruct (c =? 0); reflexivity|]. apply nc_same; cbn; auto.
    - destruct (voted s k t) as [c|]; [|discriminate]. destruct (c =? k); [|discriminate].
      inversion H; subst; clear H. exists k, (nodes s k). split; [apply Hid|]. left.
      split; [reflexivity|]. apply nc_same; reflexivity.
    - destruct (p_up (nodes s k) && negb (c =? 0) && in_net (VoteReq c t) (net s)) eqn:Hg; [|discriminate].
      apply andb_prop in Hg. destruct Hg as [Hg _]. apply andb_prop in Hg. destruct Hg as [Hup _].
      destruct (p_term (nodes s k) <? t) eqn:Hlt.
      + inversion H; subst; clear H. apply N.ltb_lt in Hlt.
        eexists k, _. split; [reflexivity|]. left. split; [reflexivity|]. apply nc_pf; cbn; [reflexivity|lia].
      + destruct ((p_term (nodes s k) =? t) && ((p_vote (nodes s k) =? 0) || (p_vote (nodes s k) =? c))) eqn:E;
          [|discriminate].
        inversion H; subst; clear H. apply andb_prop in E. destruct E as [E _]. apply N.eqb_eq in E.
        eexists k, _. split; [reflexivity|]. left. split; [reflexivity|]. apply nc_same; cbn; auto.
    - destruct (voted s k t) as [c|]; [|discriminate]. destruct (c =? k); [discriminate|].
      inversion H; subst; clear H. exists k, (nodes s k). split; [apply Hid|]. left.
      split; [reflexivity|]. apply nc_same; reflexivity.
    - destruct (voted s k t) as [c|]; [|discriminate].
      destruct ((c =? k) && existsb (N.eqb k) (leaders s t)); [|discriminate].
      inversion H; subst; clear H. exists k, (nodes s k). split; [apply Hid|]. left.
      split; [reflexivity|]. apply nc_same; reflexivity.
    - destruct (p_role (nodes s c)) eqn:Er; try discriminate.
      destruct (p_up (nodes s c) && in_net (Grant k c (p_term (nodes s c))) (net s)) eqn:Hg; [|discriminate].
      apply andb_prop in Hg. destruct Hg as [Hup _].
      inversion H; subst; clear H. eexists c, _. split; [reflexivity|]. left. split; [reflexivity|].
      apply nc_same; cbn; auto.
    - destruct (p_role (nodes s c)) eqn:Er; try discriminate.
      destruct (p_up (nodes s c) && quorum inc out (p_granted (nodes s c))); [|discriminate].
      inversion H; subst; clear H. eexists c, _. split; [reflexivity|]. right. cbn. auto 10.
    - destruct (p_up (nodes s k) && (p_term (nodes s k) <? t)) eqn:Hg; [|discriminate].
      apply andb_prop in Hg. destruct Hg as [_ Hlt]. apply N.ltb_lt in Hlt.
      inversion H; subst; clear H.
      eexists k, _. split; [reflexivity|]. left. split; [reflexivity|]. apply nc_pf; cbn; [reflexivity|lia].
    - destruct (p_up (nodes s k)); [|discriminate]. inversion H; subst; clear H.
      eexists k, _. split; [reflexivity|]. left. split; [reflexivity|]. apply nc_pf; cbn; [reflexivity|lia].
    - destruct (p_up (nodes s k)); [|discriminate]. inversion H; subst; clear H.
      eexists k, _. split; [reflexivity|]. left. split; [reflexivity|]. apply nc_pf; cbn; [reflexivity|discriminate].
    - destruct (p_up (nodes s k)); [discriminate|]. inversion H; subst; clear H.
      eexists k, _. split; [reflexivity|]. left. split; [reflexivity|]. apply nc_pf; cbn; [reflexivity|lia].
  Qed.

  (* the assertion D1 inside the proof of election_safety *)
  Lemma leader_vote_durable s t c : reachable s -> In c (leaders s t) -> voted s c t = Some c.
  Proof.
    intros Hr Hin. pose proof (reachable_Inv inc out s Hr) as HI.
    destruct (inv_leader _ _ _ HI _ _ Hin) as (Q & HQ & HV).
    destruct (Hmulti Q c HQ) as (y & Hy & Hne). destruct (HV y Hy) as [E|E]; [congruence|].
    eapply (inv_other _ _ _ HI); eassumption.
  Qed.

  Lemma leader_term_le s t c : reachable s -> In c (leaders s t) -> t <= p_term (nodes s c).
  Proof.
    intros Hr Hin. pose proof (leader_vote_durable s t c Hr Hin) as Hv.
    pose proof (reachable_Inv inc out s Hr) as HI.
    destruct (inv_voted_dur _ _ _ HI _ _ _ Hv) as [_ Hd].
    pose proof (chain_ends _ _ _ (inv_chain _ _ _ HI c)) as Hle. unfold le_tv, dur, vol in Hle. cbn in Hle. lia.
  Qed.

  (* a node that led term t is never again a candidate of term t *)
  Lemma leader_not_candidate s : reachable s ->
    forall t c, In c (leaders s t) -> p_term (nodes s c) = t -> p_role (nodes s c) <> PC.
  Proof.
    induction 1 as [|s l s' Hr IH Hstep]; [intros t c []|].
    intros t c Hin Ht.
    destruct (prule_shape _ _ _ Hstep) as (k & p' & Hn & [[Hl Hc]|(Hpc & Hpl & Hpt & _ & _ & Hl)]).
    - rewrite Hl in Hin. rewrite Hn in *. destruct (N.eqb_spec c k) as [->|Hne]; [|apply IH with t; assumption].
      destruct Hc as [Hc1 Hc2 _|Hc1 _|Hc1 Hc2].
      + rewrite Hc1. rewrite Hc2 in Ht. apply IH with t; assumption.
      + congruence.
      + pose proof (leader_term_le s t k Hr Hin). lia.
    - rewrite Hn in *. destruct (N.eqb_spec c k) as [->|Hne]; [congruence|].
      rewrite Hl in Hin. destruct (t =? p_term (nodes s k)).
      + destruct Hin as [E|Hin]; [congruence|]. apply IH with t; assumption.
      + apply IH with t; assumption.
  Qed.

  Lemma leader_up s : reachable s -> forall c, p_role (nodes s c) = PL -> p_up (nodes s c) = true.
  Proof.
    induction 1 as [|s l s' Hr IH Hstep]; [discriminate|].
    intros c Hc.
    destruct (prule_shape _ _ _ Hstep) as (k & p' & Hn & [[Hl Hch]|(Hpc & Hpl & Hpt & Hup & _ & Hl)]).
    - rewrite Hn in *. destruct (N.eqb_spec c k) as [->|Hne]; [|apply IH; assumption].
      destruct Hch as [Hc1 Hc2 Hc3|Hc1 _|Hc1 Hc2]; try congruence.
      rewrite Hc3. apply IH. congruence.
    - rewrite Hn in *. destruct (N.eqb_spec c k) as [->|Hne]; [exact Hup|apply IH; assumption].
  Qed.
End ElectionFacts.

(* ------------------------------------------------------------------ *)
(** * Log layer: inversion of every rule *)

Definition not_leader (p : pnode) : Prop := p_role p <> PL.

Lemma not_leader_spec p : negb (match p_role p with PL => true | _ => false end) = true <-> not_leader p.
Proof. unfold not_leader. destruct (p_role p); cbn; split; intros; congruence. Qed.

Section LogRules.
  Variables (inc out : list N).
  Notation lrule := (lrule inc out).

  Lemma lel_inv l0 s s' : lrule (LEl l0) s = Some s' ->
    exists e', prule inc out l0 (el s) = Some e' /\ el s' = e' /\
      match l0 with
      | LCampaign n => s' = set_clog (set_el s e') n (p_term (nodes e' n)) (l_log (ln s n))
      | LGrant n c t => s' = set_el s e' /\ up_to_date (clog s c t) (l_log (ln s n)) = true
      | LBecomeLeader c =>
          l_log (ln s c) = clog s c (p_term (nodes e' c)) /\
          s' = set_llog (set_ln (set_el s e') c
                           (with_log (ln s c) (l_log (ln s c) ++ [(p_term (nodes e' c), 0)])))
                        (p_term (nodes e' c)) (l_log (ln s c) ++ [(p_term (nodes e' c), 0)])
      | LCrash n => s' = set_ln (set_el s e') n (mkLN (l_dlog (ln s n)) (l_dlog (ln s n)) [] 0 [])
      | _ => s' = set_el s e'
      end.
  Proof.
    cbn [Log.lrule]. intros H. destruct (prule inc out l0 (el s)) as [e'|] eqn:He; [|discriminate].
    exists e'. split; [reflexivity|].
    destruct l0; cbn [el_effect] in H; cbn [set_el el ln clog] in H;
      try (inversion H; subst; clear H; cbn; split; reflexivity).
    - destruct (up_to_date (clog s c t) (l_log (ln s n))) eqn:Hu; [|discriminate].
      inversion H; subst; clear H. cbn. auto.
    - destruct (log_eqb (l_log (ln s c)) (clog s c (p_term (nodes e' c)))) eqn:Hl; [|discriminate].
      apply log_eqb_eq in Hl. inversion H; subst; clear H. cbn. auto.
  Qed.

  Lemma lpropose_inv c x s s' : lrule (LPropose c x) s = Some s' ->
    own_term_leader s c = true /\
    s' = set_llog (set_ln s c (with_log (ln s c) (l_log (ln s c) ++ [(p_term (nodes (el s) c), x)])))
                  (p_term (nodes (el s) c)) (l_log (ln s c) ++ [(p_term (nodes (el s) c), x)]).
  Proof.
    cbn [Log.lrule]. intros H. destruct (own_term_leader s c); [|discriminate].
    inversion H; subst; clear H. auto.
  Qed.

  Lemma ladopt_inv n m s s' : lrule (LAdopt n m) s = Some s' ->
    let t := p_term (nodes (el s) n) in
    let new := firstn m (llog s t) in
    p_up (nodes (el s) n) = true /\ not_leader (nodes (el s) n) /\
    (m <= length (llog s t))%nat /\
    is_prefix new (l_log (ln s n)) = false /\
    (exists suf, new = firstn (l_commit (ln s n)) (l_log (ln s n)) ++ suf) /\
    (l_commit (ln s n) <= m)%nat /\
    s' = set_ln s n (with_log (ln s n) new).
  Proof.
    cbn [Log.lrule]. intros H. cbv zeta in H.
    match type of H with (if ?g then _ else _) = _ => destruct g eqn:Hg; [|discriminate] end.
    inversion H; subst; clear H.
    apply andb_prop in Hg. destruct Hg as [Hg H6]. apply andb_prop in Hg. destruct Hg as [Hg H5].
    apply andb_prop in Hg. destruct Hg as [Hg H4]. apply andb_prop in Hg. destruct Hg as [Hg H3].
    apply andb_prop in Hg. destruct Hg as [H1 H2].
    apply not_leader_spec in H2. apply Nat.leb_le in H3, H6. apply negb_true_iff in H4.
    apply is_prefix_spec in H5. cbv zeta. auto 10.
  Qed.

  Lemma lmkack_inv q i s s' : lrule (LMkAck q i) s = Some s' ->
    let t := p_term (nodes (el s) q) in
    p_up (nodes (el s) q) = true /\ not_leader (nodes (el s) q) /\
    (i <= length (llog s t))%nat /\
    (exists suf, l_log (ln s q) = firstn i (llog s t) ++ suf) /\
    s' = set_ln s q (mkLN (l_log (ln s q)) (l_dlog (ln s q)) (l_imgs (ln s q)) (l_commit (ln s q))
                          ((t, i) :: l_acks (ln s q))).
  Proof.
    cbn [Log.lrule]. intros H. cbv zeta in H.
    match type of H with (if ?g then _ else _) = _ => destruct g eqn:Hg; [|discriminate] end.
    inversion H; subst; clear H.
    apply andb_prop in Hg. destruct Hg as [Hg H4]. apply andb_prop in Hg. destruct Hg as [Hg H3].
    apply andb_prop in Hg. destruct Hg as [H1 H2].
    apply not_leader_spec in H2. apply Nat.leb_le in H3. apply is_prefix_spec in H4. cbv zeta. auto 10.
  Qed.

  Lemma lrelack_inv q t i s s' : lrule (LRelAck q t i) s = Some s' ->
    In (t, i) (l_acks (ln s q)) /\
    (exists suf, l_dlog (ln s q) = firstn i (llog s t) ++ suf) /\
    (i <= length (llog s t))%nat /\
    s' = (if (acked s q t <? i)%nat then set_acked s q t i else s).
  Proof.
    cbn [Log.lrule]. intros H. cbv zeta in H.
    match type of H with (if ?g then _ else _) = _ => destruct g eqn:Hg; [|discriminate] end.
    inversion H; subst; clear H.
    apply andb_prop in Hg. destruct Hg as [Hg H3]. apply andb_prop in Hg. destruct Hg as [H1 H2].
    apply Nat.leb_le in H3. apply is_prefix_spec in H2.
    apply existsb_exists in H1. destruct H1 as ([t0 i0] & Hin & He). cbn in He.
    apply andb_prop in He. destruct He as [E1 E2]. apply N.eqb_eq in E1. apply Nat.eqb_eq in E2. subst.
    auto.
  Qed.

  Definition supporters (s : lst) (c : N) (k : nat) : list N :=
    filter (fun q => if q =? c then is_prefix (firstn k (l_log (ln s c))) (l_dlog (ln s c))
                     else (k <=? acked s q (p_term (nodes (el s) c)))%nat) (universe inc out).

  Lemma lcommitl_inv c k s s' : lrule (LCommitL c k) s = Some s' ->
    let t := p_term (nodes (el s) c) in
    own_term_leader s c = true /\ (k <= length (l_log (ln s c)))%nat /\ (l_commit (ln s c) < k)%nat /\
    term_at (l_log (ln s c)) k = t /\ quorum inc out (supporters s c k) = true /\
    s' = add_cpt (let s1 := set_ln s c (mkLN (l_log (ln s c)) (l_dlog (ln s c)) (l_imgs (ln s c)) k (l_acks (ln s c))) in
                  if is_prefix (firstn k (l_log (ln s c))) (l_dlog (ln s c)) && (acked s c t <? k)%nat
                  then set_acked s1 c t k else s1) t k.
  Proof.
    cbn [Log.lrule]. intros H. cbv zeta in H.
    match type of H with (if ?g then _ else _) = _ => destruct g eqn:Hg; [|discriminate] end.
    inversion H; subst; clear H.
    apply andb_prop in Hg. destruct Hg as [Hg H5]. apply andb_prop in Hg. destruct Hg as [Hg H4].
    apply andb_prop in Hg. destruct Hg as [Hg H3]. apply andb_prop in Hg. destruct Hg as [H1 H2].
    apply Nat.leb_le in H2. apply Nat.ltb_lt in H3. apply N.eqb_eq in H4. cbv zeta. auto 10.
  Qed.

  Lemma lcommitf_inv n k s s' : lrule (LCommitF n k) s = Some s' ->
    p_up (nodes (el s) n) = true /\ (k <= length (l_log (ln s n)))%nat /\ (l_commit (ln s n) < k)%nat /\
    (exists T k0, In (T, k0) (cpts s) /\ (k <= k0)%nat /\
                  exists suf, llog s T = firstn k (l_log (ln s n)) ++ suf) /\
    s' = set_ln s n (mkLN (l_log (ln s n)) (l_dlog (ln s n)) (l_imgs (ln s n)) k (l_acks (ln s n))).
  Proof.
    cbn [Log.lrule]. intros H. cbv zeta in H.
    match type of H with (if ?g then _ else _) = _ => destruct g eqn:Hg; [|discriminate] end.
    inversion H; subst; clear H.
    apply andb_prop in Hg. destruct Hg as [Hg H4]. apply andb_prop in Hg. destruct Hg as [Hg H3].
    apply andb_prop in Hg. destruct Hg as [H1 H2].
    apply Nat.leb_le in H2. apply Nat.ltb_lt in H3.
    apply existsb_exists in H4. destruct H4 as ([T k0] & Hin & He). cbn in He.
    apply andb_prop in He. destruct He as [E1 E2]. apply Nat.leb_le in E1. apply is_prefix_spec in E2.
    repeat split; auto. exists T, k0. auto.
  Qed.

  Lemma llogimage_inv n s s' : lrule (LLogImage n) s = Some s' ->
    p_up (nodes (el s) n) = true /\
    s' = set_ln s n (mkLN (l_log (ln s n)) (l_dlog (ln s n)) (l_imgs (ln s n) ++ [l_log (ln s n)])
                          (l_commit (ln s n)) (l_acks (ln s n))).
  Proof.
    cbn [Log.lrule]. intros H. cbv zeta in H. destruct (p_up (nodes (el s) n)); [|discriminate].
    inversion H; subst; clear H. auto.
  Qed.

  Lemma llogfsync_inv n s s' : lrule (LLogFsync n) s = Some s' ->
    exists img rest, l_imgs (ln s n) = img :: rest /\ p_up (nodes (el s) n) = true /\
    (forall e, In e img -> eterm e <= p_dterm (nodes (el s) n)) /\
    s' = set_ln s n (mkLN (l_log (ln s n)) img rest (l_commit (ln s n)) (l_acks (ln s n))).
  Proof.
    cbn [Log.lrule]. intros H. cbv zeta in H. destruct (l_imgs (ln s n)) as [|img rest]; [discriminate|].
    match type of H with (if ?g then _ else _) = _ => destruct g eqn:Hg; [|discriminate] end.
    apply andb_prop in Hg. destruct Hg as [H1 H2].
    inversion H; subst; clear H. exists img, rest. repeat split; auto.
    intros e He. rewrite forallb_forall in H2. apply N.leb_le. apply H2. exact He.
  Qed.

  (* Stage 0: projection onto the election layer *)
  Lemma lstep_el l s s' : lrule l s = Some s' ->
    el s' = el s \/ exists l0, l = LEl l0 /\ prule inc out l0 (el s) = Some (el s').
  Proof.
    intros H. destruct l as [l0|c x|n m|q i|q t i|c k|n k|n|n].
    - right. exists l0. split; [reflexivity|]. destruct (lel_inv _ _ _ H) as (e' & He & <- & _). exact He.
    - left. apply lpropose_inv in H. destruct H as (_ & ->). reflexivity.
    - left. apply ladopt_inv in H. cbv zeta in H. destruct H as (_ & _ & _ & _ & _ & _ & ->). reflexivity.
    - left. apply lmkack_inv in H. cbv zeta in H. destruct H as (_ & _ & _ & _ & ->). reflexivity.
    - left. apply lrelack_inv in H. destruct H as (_ & _ & _ & ->). destruct (acked s q t <? i)%nat; reflexivity.
    - left. apply lcommitl_inv in H. cbv zeta in H. destruct H as (_ & _ & _ & _ & _ & ->). destruct (is_prefix _ _ && _)%bool; reflexivity.
    - left. apply lcommitf_inv in H. destruct H as (_ & _ & _ & _ & ->). reflexivity.
    - left. apply llogimage_inv in H. destruct H as (_ & ->). reflexivity.
    - left. apply llogfsync_inv in H. destruct H as (img & rest & _ & _ & _ & ->). reflexivity.
  Qed.

  Theorem lreachable_el s : lreachable inc out s -> reachable inc out (el s).
  Proof.
    induction 1 as [|s l s' Hr IH Hstep]; [apply reach_init|].
    destruct (lstep_el _ _ _ Hstep) as [E|(l0 & _ & Hp)]; [rewrite E; exact IH|].
    eapply reach_step; eassumption.
  Qed.
End LogRules.

(* ------------------------------------------------------------------ *)
(** * Logs as prefix-paths of the leader logs *)

(* every prefix of [L] is the prefix of the leader log of the term of its last entry *)
Definition good (lg : N -> list ent) (L : list ent) : Prop :=
  forall j, (1 <= j <= length L)%nat ->
    (j <= length (lg (term_at L j)))%nat /\ firstn j L = firstn j (lg (term_at L j)).

Definition grows (lg lg' : N -> list ent) : Prop := forall t, exists suf, lg' t = lg t ++ suf.

Lemma grows_refl lg : grows lg lg.
Proof. intros t. exists []. symmetry. apply app_nil_r. Qed.

Lemma good_nil lg : good lg [].
Proof. intros j Hj. cbn in Hj. lia. Qed.

Lemma good_mono lg lg' L : grows lg lg' -> good lg L -> good lg' L.
Proof.
  intros Hg HL j Hj. destruct (HL j Hj) as [H1 H2]. destruct (Hg (term_at L j)) as [suf Hs].
  rewrite Hs. split; [rewrite app_length; lia|]. rewrite firstn_app_le by exact H1. exact H2.
Qed.

Lemma good_firstn lg L m : good lg L -> good lg (firstn m L).
Proof.
  intros HL j Hj. rewrite firstn_length in Hj.
  rewrite term_at_firstn by lia. rewrite firstn_firstn_le by lia. apply HL. lia.
Qed.

Lemma good_snoc lg lg' L e : good lg L -> grows lg lg' -> lg' (eterm e) = L ++ [e] -> good lg' (L ++ [e]).
Proof.
  intros HL Hg He j Hj. rewrite app_length in Hj. cbn in Hj.
  destruct (Nat.eq_dec j (S (length L))) as [->|Hne].
  - rewrite term_at_app_last, He. split; [rewrite app_length; cbn; lia|reflexivity].
  - rewrite term_at_app_l by lia. rewrite firstn_app_le by lia.
    apply (good_mono lg lg' L Hg HL). lia.
Qed.

Lemma good_matching lg L1 L2 j : good lg L1 -> good lg L2 ->
  (1 <= j)%nat -> (j <= length L1)%nat -> (j <= length L2)%nat ->
  term_at L1 j = term_at L2 j -> firstn j L1 = firstn j L2.
Proof.
  intros H1 H2 Hj Hl1 Hl2 Ht. destruct (H1 j) as [_ E1]; [lia|]. destruct (H2 j) as [_ E2]; [lia|].
  rewrite E1, E2, Ht. reflexivity.
Qed.

Lemma become_leader_inv inc out c e e' : prule inc out (LBecomeLeader c) e = Some e' ->
  p_role (nodes e c) = PC /\ p_up (nodes e c) = true /\ quorum inc out (p_granted (nodes e c)) = true /\
  e' = add_leader (set_node e c (mkPN true (p_term (nodes e c)) (p_vote (nodes e c)) PL (p_granted (nodes e c))
                                      (p_dterm (nodes e c)) (p_dvote (nodes e c)) (p_imgs (nodes e c))))
                  (p_term (nodes e c)) c.
Proof.
  cbn [prule]. intros H. destruct (p_role (nodes e c)); try discriminate.
  destruct (p_up (nodes e c) && quorum inc out (p_granted (nodes e c))) eqn:Hg; [|discriminate].
  apply andb_prop in Hg. destruct Hg as [H1 H2]. inversion H; subst; clear H. auto.
Qed.

Section LogInv.
  Variables (inc out : list N).
  Hypothesis inc_nonempty : inc <> [].
  Hypothesis Hmulti : no_single_quorum inc out.
  Notation lrule := (lrule inc out).
  Notation lreachable := (lreachable inc out).

  Record LInv (s : lst) : Prop := {
    (* B: a leader's log is the ghost leader log of its term *)
    li_B : forall c, own_term_leader s c = true -> l_log (ln s c) = llog s (p_term (nodes (el s) c));
    (* C1: a non-empty leader log has a recorded leader *)
    li_C1 : forall t, llog s t <> [] -> exists c, In c (leaders (el s) t);
    (* D: every log is a prefix-path of the leader logs *)
    li_Dlog : forall n, good (llog s) (l_log (ln s n));
    li_Ddlog : forall n, good (llog s) (l_dlog (ln s n));
    li_Dimg : forall n img, In img (l_imgs (ln s n)) -> good (llog s) img;
    li_Dllog : forall t, good (llog s) (llog s t);
    li_Dclog : forall c t, good (llog s) (clog s c t);
    (* G: the commit index is within the log *)
    li_G : forall n, (l_commit (ln s n) <= length (l_log (ln s n)))%nat
  }.

  Lemma LInv_init : LInv linit.
  Proof.
    constructor; cbn; intros; try apply good_nil; try discriminate; try contradiction; try congruence; lia.
  Qed.

  (* a new leader's term has no leader log yet *)
  Lemma new_leader_llog_nil s c e' : lreachable s -> LInv s ->
    prule inc out (LBecomeLeader c) (el s) = Some e' -> llog s (p_term (nodes (el s) c)) = [].
  Proof.
    intros Hr HI He. pose proof (lreachable_el _ _ _ Hr) as Hre.
    assert (Hre' : reachable inc out e') by (eapply reach_step; eassumption).
    destruct (become_leader_inv _ _ _ _ _ He) as (Hpc & _ & _ & ->).
    destruct (llog s (p_term (nodes (el s) c))) as [|x r] eqn:El; [reflexivity|exfalso].
    destruct (li_C1 s HI (p_term (nodes (el s) c))) as [c' Hc']; [rewrite El; discriminate|].
    assert (c' = c).
    { eapply (election_safety inc out inc_nonempty _ (p_term (nodes (el s) c)) c' c Hmulti Hre'); cbn;
        rewrite N.eqb_refl; [right; exact Hc'|left; reflexivity]. }
    subst c'. eapply (leader_not_candidate inc out Hmulti (el s) Hre); eauto.
  Qed.

  (* C3: leader logs only grow by appending *)
  Lemma llog_grows s l s' : lreachable s -> LInv s -> lrule l s = Some s' -> grows (llog s) (llog s').
  Proof.
    intros Hr HI H. destruct l as [l0|c x|n m|q i|q t i|c k|n k|n|n].
    - destruct (lel_inv _ _ _ _ _ H) as (e' & He & Hel & Hs).
      destruct l0; try (subst s'; apply grows_refl); try (destruct Hs as [-> _]; apply grows_refl).
      destruct Hs as [_ ->]. intros t. cbn.
      destruct (N.eqb_spec t (p_term (nodes e' c))) as [->|Hne]; [|exists []; symmetry; apply app_nil_r].
      pose proof (new_leader_llog_nil s c e' Hr HI He) as Hnil.
      destruct (become_leader_inv _ _ _ _ _ He) as (_ & _ & _ & Ee). rewrite Ee. cbn. rewrite N.eqb_refl. cbn.
      rewrite Hnil. eexists. reflexivity.
    - apply lpropose_inv in H. destruct H as (Hl & ->). intros t. cbn.
      destruct (N.eqb_spec t (p_term (nodes (el s) c))) as [->|Hne]; [|exists []; symmetry; apply app_nil_r].
      rewrite (li_B s HI c Hl). eexists. reflexivity.
    - apply ladopt_inv in H. cbv zeta in H. destruct H as (_ & _ & _ & _ & _ & _ & ->). apply grows_refl.
    - apply lmkack_inv in H. cbv zeta in H. destruct H as (_ & _ & _ & _ & ->). apply grows_refl.
    - apply lrelack_inv in H. destruct H as (_ & _ & _ & ->). destruct (acked s q t <? i)%nat; apply grows_refl.
    - apply lcommitl_inv in H. cbv zeta in H. destruct H as (_ & _ & _ & _ & _ & ->). destruct (is_prefix _ _ && _)%bool; apply grows_refl.
    - apply lcommitf_inv in H. destruct H as (_ & _ & _ & _ & ->). apply grows_refl.
    - apply llogimage_inv in H. destruct H as (_ & ->). apply grows_refl.
    - apply llogfsync_inv in H. destruct H as (img & rest & _ & _ & _ & ->). apply grows_refl.
  Qed.

  (* frame lemmas *)
  Lemma LInv_set_ln s n x' : LInv s ->
    (own_term_leader s n = true -> l_log x' = l_log (ln s n)) ->
    good (llog s) (l_log x') -> good (llog s) (l_dlog x') ->
    (forall img, In img (l_imgs x') -> good (llog s) img) ->
    (l_commit x' <= length (l_log x'))%nat ->
    LInv (set_ln s n x').
  Proof.
    intros HI HB H1 H2 H3 H4. destruct HI as [B C1 D1 D2 D3 D4 D5 G].
    constructor; cbn [set_ln ln el llog clog]; intros.
    - change (own_term_leader (set_ln s n x') c) with (own_term_leader s c) in H.
      destruct (N.eqb_spec c n) as [->|Hne]; [rewrite HB by exact H|]; apply B; exact H.
    - apply C1; assumption.
    - destruct (n0 =? n); [exact H1|apply D1].
    - destruct (n0 =? n); [exact H2|apply D2].
    - destruct (n0 =? n); [apply H3; exact H|eapply D3; exact H].
    - apply D4.
    - apply D5.
    - destruct (n0 =? n); [exact H4|apply G].
  Qed.

  Lemma LInv_set_acked s q t i : LInv s -> LInv (set_acked s q t i).
  Proof. intros [B C1 D1 D2 D3 D4 D5 G]. constructor; assumption. Qed.

  Lemma LInv_add_cpt s t k : LInv s -> LInv (add_cpt s t k).
  Proof. intros [B C1 D1 D2 D3 D4 D5 G]. constructor; assumption. Qed.

  Lemma LInv_set_clog s c t L : LInv s -> good (llog s) L -> LInv (set_clog s c t L).
  Proof.
    intros [B C1 D1 D2 D3 D4 D5 G] HL. constructor; try assumption.
    intros c0 t0. cbn. destruct ((c0 =? c) && (t0 =? t)); [exact HL|apply D5].
  Qed.

  Lemma LInv_set_el s e' l0 : LInv s -> prule inc out l0 (el s) = Some e' ->
    (forall k, l0 <> LBecomeLeader k) -> LInv (set_el s e').
  Proof.
    intros [B C1 D1 D2 D3 D4 D5 G] He Hnl. constructor; try assumption.
    - intros c. unfold own_term_leader. cbn [set_el el ln llog]. intros Hc.
      destruct (prule_shape _ _ _ _ _ He) as (k & p' & Hn & [[Hl Hch]|(_ & _ & _ & _ & El & _)]);
        [|exfalso; eapply Hnl; exact El].
      rewrite Hn in *. destruct (N.eqb_spec c k) as [->|Hne]; [|apply B; exact Hc].
      destruct Hch as [Hc1 Hc2 Hc3|Hc1 _|Hc1 _].
      + rewrite Hc2. apply B. unfold own_term_leader. rewrite <- Hc1, <- Hc3. exact Hc.
      + rewrite Hc1 in Hc. discriminate.
      + rewrite Hc1 in Hc. discriminate.
    - intros t Ht. cbn [set_el el llog] in *. destruct (C1 t Ht) as [c Hc]. exists c.
      destruct (prule_shape _ _ _ _ _ He) as (k & p' & Hn & [[Hl Hch]|(_ & _ & _ & _ & El & _)]);
        [|exfalso; eapply Hnl; exact El].
      rewrite Hl. exact Hc.
  Qed.

  (* a leader (new or old) appends an entry of its term *)
  Lemma LInv_append s c e' en :
    let L := l_log (ln s c) in
    let t := eterm en in
    LInv s ->
    (exists suf, L ++ [en] = llog s t ++ suf) ->
    (forall c0, own_term_leader (set_el s e') c0 = true ->
       (c0 = c /\ p_term (nodes e' c) = t) \/
       (c0 <> c /\ own_term_leader s c0 = true /\ p_term (nodes e' c0) = p_term (nodes (el s) c0) /\
        p_term (nodes e' c0) <> t)) ->
    In c (leaders e' t) -> (forall t0 c0, In c0 (leaders (el s) t0) -> In c0 (leaders e' t0)) ->
    LInv (set_llog (set_ln (set_el s e') c (with_log (ln s c) (L ++ [en]))) t (L ++ [en])).
  Proof.
    intros L t [B C1 D1 D2 D3 D4 D5 G] Hsuf HB Hin Hl.
    set (s' := set_llog (set_ln (set_el s e') c (with_log (ln s c) (L ++ [en]))) t (L ++ [en])).
    assert (Hgr : grows (llog s) (llog s')).
    { intros t0. cbn. destruct (N.eqb_spec t0 t) as [->|Hne]; [exact Hsuf|exists []; symmetry; apply app_nil_r]. }
    assert (Hnew : good (llog s') (L ++ [en])).
    { apply good_snoc with (lg := llog s); [apply D1|exact Hgr|]. cbn. fold t. rewrite N.eqb_refl. reflexivity. }
    constructor.
    - intros c0 Hc0. change (own_term_leader s' c0) with (own_term_leader (set_el s e') c0) in Hc0.
      cbn [s' set_llog set_ln set_el ln el llog].
      destruct (HB c0 Hc0) as [[-> Ht]|(Hne & Hold & Ht1 & Ht2)].
      + rewrite N.eqb_refl, Ht, N.eqb_refl. reflexivity.
      + apply N.eqb_neq in Hne, Ht2. rewrite Hne, Ht2, Ht1. apply B. exact Hold.
    - intros t0. cbn [s' set_llog set_ln set_el ln el llog].
      destruct (N.eqb_spec t0 t) as [->|Hne]; [intros _; exists c; exact Hin|].
      intros Ht0. destruct (C1 t0 Ht0) as [c0 Hc0]. exists c0. apply Hl. exact Hc0.
    - intros n. cbn [s' set_llog set_ln set_el ln el llog].
      destruct (n =? c); [exact Hnew|]. apply good_mono with (lg := llog s); [exact Hgr|apply D1].
    - intros n. cbn [s' set_llog set_ln set_el ln el llog].
      destruct (n =? c); cbn; (apply good_mono with (lg := llog s); [exact Hgr|apply D2]).
    - intros n img. cbn [s' set_llog set_ln set_el ln el llog].
      destruct (n =? c); cbn; intros Himg; (apply good_mono with (lg := llog s); [exact Hgr|eapply D3; exact Himg]).
    - intros t0. change (good (llog s') (if t0 =? t then L ++ [en] else llog s t0)). destruct (t0 =? t); [exact Hnew|].
      apply good_mono with (lg := llog s); [exact Hgr|apply D4].
    - intros c0 t0. apply good_mono with (lg := llog s); [exact Hgr|apply D5].
    - intros n. cbn [s' set_llog set_ln set_el ln el llog].
      destruct (n =? c) eqn:E; [|apply G]. cbn [with_log l_log l_commit]. rewrite app_length. pose proof (G c) as Gc. subst L. cbn [length]. lia.
  Qed.
  Lemma own_term_leader_spec s c :
    own_term_leader s c = true <-> p_role (nodes (el s) c) = PL /\ p_up (nodes (el s) c) = true.
  Proof. unfold own_term_leader. destruct (p_role (nodes (el s) c)); split; intros; try tauto; try discriminate; destruct H; discriminate. Qed.

  Theorem LInv_step s l s' : lreachable s -> LInv s -> lrule l s = Some s' -> LInv s'.
  Proof.
    intros Hr HI H. pose proof (lreachable_el _ _ _ Hr) as Hre.
    destruct l as [l0|c x|n m|q i|q t i|c k|n k|n|n].
    - destruct (lel_inv _ _ _ _ _ H) as (e' & He & Hel & Hs).
      assert (Hre' : reachable inc out e') by (eapply reach_step; eassumption).
      destruct l0 as [n|n|n|n t|n c t|n t|n t|c n|c|n t|n|n|n];
        try (subst s'; eapply LInv_set_el; [exact HI|exact He|discriminate]).
      + (* campaign *)
        subst s'. apply LInv_set_clog; [eapply LInv_set_el; [exact HI|exact He|discriminate]|].
        cbn. apply (li_Dlog s HI).
      + (* grant *)
        destruct Hs as [-> _]. eapply LInv_set_el; [exact HI|exact He|discriminate].
      + (* become leader *)
        destruct Hs as [Hcl ->].
        destruct (become_leader_inv _ _ _ _ _ He) as (Hpc & Hup & Hq & Ee).
        assert (Et : p_term (nodes e' c) = p_term (nodes (el s) c))
          by (rewrite Ee; cbn; rewrite N.eqb_refl; reflexivity).
        assert (Hrl : p_role (nodes e' c) = PL) by (rewrite Ee; cbn; rewrite N.eqb_refl; reflexivity).
        apply (LInv_append s c e' (p_term (nodes e' c), 0)); cbn [eterm fst].
        * exact HI.
        * rewrite Et, (new_leader_llog_nil s c e' Hr HI He). eexists. reflexivity.
        * intros c0 Hc0. destruct (N.eq_dec c0 c) as [->|Hne]; [left; auto|right].
          apply own_term_leader_spec in Hc0. cbn [set_el el] in Hc0. destruct Hc0 as [Hc1 Hc2].
          assert (En : nodes e' c0 = nodes (el s) c0).
          { rewrite Ee. cbn. apply N.eqb_neq in Hne. rewrite Hne. reflexivity. }
          split; [exact Hne|]. split; [apply own_term_leader_spec; rewrite <- En; auto|].
          split; [rewrite En; reflexivity|]. intros Heq. apply Hne.
          eapply (election_safety_roles inc out inc_nonempty e' c0 c Hmulti Hre'); assumption.
        * rewrite Et. rewrite Ee. cbn. rewrite N.eqb_refl. left. reflexivity.
        * intros t0 c0 Hin. rewrite Ee. cbn. destruct (t0 =? p_term (nodes (el s) c)); [right|]; exact Hin.
      + (* crash *)
        subst s'. apply LInv_set_ln.
        * eapply LInv_set_el; [exact HI|exact He|discriminate].
        * intros Hl. exfalso. cbn [prule] in He. destruct (p_up (nodes (el s) n)); [|discriminate].
          inversion He; subst e'; clear He. unfold own_term_leader in Hl. cbn in Hl.
          rewrite N.eqb_refl in Hl. cbn in Hl. discriminate.
        * cbn. apply (li_Ddlog s HI).
        * cbn. apply (li_Ddlog s HI).
        * cbn. contradiction.
        * cbn. lia.
    - (* propose *)
      apply lpropose_inv in H. destruct H as (Hl & ->).
      pose proof Hl as Hl'. apply own_term_leader_spec in Hl'. destruct Hl' as [Hrl Hup].
      apply (LInv_append s c (el s) (p_term (nodes (el s) c), x)); cbn [eterm fst].
      + exact HI.
      + rewrite (li_B s HI c Hl). eexists. reflexivity.
      + intros c0 Hc0. change (own_term_leader s c0 = true) in Hc0.
        destruct (N.eq_dec c0 c) as [->|Hne]; [left; auto|right].
        split; [exact Hne|]. split; [exact Hc0|]. split; [reflexivity|]. intros Heq. apply Hne.
        apply own_term_leader_spec in Hc0. destruct Hc0 as [Hc1 Hc2].
        eapply (election_safety_roles inc out inc_nonempty (el s) c0 c Hmulti Hre); assumption.
      + apply (leader_recorded inc out); assumption.
      + auto.
    - (* adopt *)
      apply ladopt_inv in H. cbv zeta in H. destruct H as (Hup & Hnl & Hm & Hch & Hcp & Hcm & ->).
      apply LInv_set_ln; cbn [with_log l_log l_dlog l_imgs l_commit].
      + exact HI.
      + intros Hl. apply own_term_leader_spec in Hl. destruct Hl as [Hl _]. contradiction.
      + apply good_firstn. apply (li_Dllog s HI).
      + apply (li_Ddlog s HI).
      + apply (li_Dimg s HI).
      + rewrite firstn_length. lia.
    - (* make ack *)
      apply lmkack_inv in H. cbv zeta in H. destruct H as (_ & _ & _ & _ & ->).
      apply LInv_set_ln; cbn [l_log l_dlog l_imgs l_commit]; try reflexivity; try exact HI;
        [apply (li_Dlog s HI)|apply (li_Ddlog s HI)|apply (li_Dimg s HI)|apply (li_G s HI)].
    - (* release ack *)
      apply lrelack_inv in H. destruct H as (_ & _ & _ & ->).
      destruct (acked s q t <? i)%nat; [apply LInv_set_acked|]; exact HI.
    - (* leader commit *)
      apply lcommitl_inv in H. cbv zeta in H. destruct H as (_ & Hk & _ & _ & _ & ->).
      apply LInv_add_cpt.
      assert (HI1 : LInv (set_ln s c (mkLN (l_log (ln s c)) (l_dlog (ln s c)) (l_imgs (ln s c)) k (l_acks (ln s c))))).
      { apply LInv_set_ln; cbn [l_log l_dlog l_imgs l_commit]; try reflexivity; try exact HI;
          [apply (li_Dlog s HI)|apply (li_Ddlog s HI)|apply (li_Dimg s HI)|exact Hk]. }
      cbv zeta. destruct (is_prefix _ _ && _)%bool; [apply LInv_set_acked|]; exact HI1.
    - (* follower commit *)
      apply lcommitf_inv in H. destruct H as (_ & Hk & _ & _ & ->).
      apply LInv_set_ln; cbn [l_log l_dlog l_imgs l_commit]; try reflexivity; try exact HI;
        [apply (li_Dlog s HI)|apply (li_Ddlog s HI)|apply (li_Dimg s HI)|exact Hk].
    - (* log image *)
      apply llogimage_inv in H. destruct H as (_ & ->).
      apply LInv_set_ln; cbn [l_log l_dlog l_imgs l_commit]; try reflexivity; try exact HI;
        [apply (li_Dlog s HI)|apply (li_Ddlog s HI)| |apply (li_G s HI)].
      intros img Hin. apply in_app_iff in Hin. destruct Hin as [Hin|[<-|[]]];
        [eapply (li_Dimg s HI); exact Hin|apply (li_Dlog s HI)].
    - (* log fsync *)
      apply llogfsync_inv in H. destruct H as (img & rest & Ei & _ & _ & ->).
      apply LInv_set_ln; cbn [l_log l_dlog l_imgs l_commit]; try reflexivity; try exact HI;
        [apply (li_Dlog s HI)| | |apply (li_G s HI)].
      + apply (li_Dimg s HI n). rewrite Ei. left. reflexivity.
      + intros img' Hin. apply (li_Dimg s HI n). rewrite Ei. right. exact Hin.
  Qed.

  Theorem lreachable_LInv s : lreachable s -> LInv s.
  Proof.
    induction 1 as [|s l s' Hr IH Hstep]; [apply LInv_init|]. eapply LInv_step; eassumption.
  Qed.
End LogInv.

(* ------------------------------------------------------------------ *)
(** * C05: log matching, leader append-only, committed prefix immutable *)

Section C05.
  Variables (inc out : list N).
  Hypothesis inc_nonempty : inc <> [].
  Hypothesis Hmulti : no_single_quorum inc out.
  Notation lrule := (lrule inc out).
  Notation lreachable := (lreachable inc out).

  Theorem log_matching s n1 n2 L1 L2 j : lreachable s ->
    (L1 = l_log (ln s n1) \/ L1 = l_dlog (ln s n1) \/ In L1 (l_imgs (ln s n1))) ->
    (L2 = l_log (ln s n2) \/ L2 = l_dlog (ln s n2) \/ In L2 (l_imgs (ln s n2))) ->
    (1 <= j)%nat -> (j <= length L1)%nat -> (j <= length L2)%nat ->
    term_at L1 j = term_at L2 j -> firstn j L1 = firstn j L2.
  Proof.
    intros Hr H1 H2. pose proof (lreachable_LInv inc out inc_nonempty Hmulti s Hr) as HI.
    apply good_matching with (lg := llog s).
    - destruct H1 as [->|[->|H1]]; [apply (li_Dlog s HI)|apply (li_Ddlog s HI)|eapply (li_Dimg s HI); exact H1].
    - destruct H2 as [->|[->|H2]]; [apply (li_Dlog s HI)|apply (li_Ddlog s HI)|eapply (li_Dimg s HI); exact H2].
  Qed.

  Corollary log_matching_entries s n1 n2 L1 L2 j i : lreachable s ->
    (L1 = l_log (ln s n1) \/ L1 = l_dlog (ln s n1) \/ In L1 (l_imgs (ln s n1))) ->
    (L2 = l_log (ln s n2) \/ L2 = l_dlog (ln s n2) \/ In L2 (l_imgs (ln s n2))) ->
    (1 <= j)%nat -> (j <= length L1)%nat -> (j <= length L2)%nat ->
    term_at L1 j = term_at L2 j -> (i < j)%nat -> nth_error L1 i = nth_error L2 i.
  Proof.
    intros Hr H1 H2 Hj Hl1 Hl2 Ht Hi. apply nth_error_firstn_eq with (k := j); [exact Hi|].
    eapply log_matching; eassumption.
  Qed.

  Theorem leader_append_only s l s' c : lreachable s -> lrule l s = Some s' ->
    own_term_leader s c = true -> own_term_leader s' c = true ->
    p_term (nodes (el s') c) = p_term (nodes (el s) c) ->
    exists suffix, l_log (ln s' c) = l_log (ln s c) ++ suffix.
  Proof.
    intros Hr Hstep Hl Hl' Ht.
    pose proof (lreachable_LInv inc out inc_nonempty Hmulti s Hr) as HI.
    assert (Hr' : lreachable s') by (eapply lreach_step; eassumption).
    pose proof (lreachable_LInv inc out inc_nonempty Hmulti s' Hr') as HI'.
    rewrite (li_B s HI c Hl), (li_B s' HI' c Hl'), Ht.
    apply (llog_grows inc out inc_nonempty Hmulti s l s' Hr HI Hstep).
  Qed.

  (* the same read off the roles (a node in the leader role is up) *)
  Theorem leader_append_only_roles s l s' c : lreachable s -> lrule l s = Some s' ->
    p_role (nodes (el s) c) = PL -> p_role (nodes (el s') c) = PL ->
    p_term (nodes (el s') c) = p_term (nodes (el s) c) ->
    exists suffix, l_log (ln s' c) = l_log (ln s c) ++ suffix.
  Proof.
    intros Hr Hstep Hl Hl' Ht.
    assert (Hr' : lreachable s') by (eapply lreach_step; eassumption).
    eapply leader_append_only; try eassumption; apply own_term_leader_spec; split; try assumption.
    - apply (leader_up inc out (el s)); [apply lreachable_el; exact Hr|exact Hl].
    - apply (leader_up inc out (el s')); [apply lreachable_el; exact Hr'|exact Hl'].
  Qed.

  Theorem commit_prefix_immutable s l s' n : lreachable s -> lrule l s = Some s' ->
    l <> LEl (LCrash n) ->
    (l_commit (ln s n) <= l_commit (ln s' n))%nat /\
    firstn (l_commit (ln s n)) (l_log (ln s' n)) = firstn (l_commit (ln s n)) (l_log (ln s n)).
  Proof.
    intros Hr H Hnc. pose proof (lreachable_LInv inc out inc_nonempty Hmulti s Hr) as HI.
    pose proof (li_G s HI n) as HG.
    destruct l as [l0|c x|n0 m|q i|q t i|c k|n0 k|n0|n0].
    - destruct (lel_inv _ _ _ _ _ H) as (e' & He & Hel & Hs).
      destruct l0 as [n0|n0|n0|n0 t|n0 c t|n0 t|n0 t|c n0|c|n0 t|n0|n0|n0];
        try (subst s'; cbn; split; [lia|reflexivity]).
      + destruct Hs as [-> _]. cbn. split; [lia|reflexivity].
      + destruct Hs as [_ ->]. cbn [set_llog set_ln set_el ln].
        destruct (N.eqb_spec n c) as [->|Hne]; [|split; [lia|reflexivity]].
        cbn [with_log l_log l_commit]. split; [lia|]. apply firstn_app_le. exact HG.
      + subst s'. cbn [set_ln set_el ln].
        destruct (N.eqb_spec n n0) as [->|Hne]; [congruence|]. split; [lia|reflexivity].
    - apply lpropose_inv in H. destruct H as (_ & ->). cbn [set_llog set_ln ln].
      destruct (N.eqb_spec n c) as [->|Hne]; [|split; [lia|reflexivity]].
      cbn [with_log l_log l_commit]. split; [lia|]. apply firstn_app_le. exact HG.
    - apply ladopt_inv in H. cbv zeta in H. destruct H as (_ & _ & _ & _ & Hcp & _ & ->). cbn [set_ln ln].
      destruct (N.eqb_spec n n0) as [->|Hne]; [|split; [lia|reflexivity]].
      cbn [with_log l_log l_commit]. split; [lia|]. destruct Hcp as [suf Hs].
      pose proof (prefix_firstn _ _ _ Hs) as Hp. rewrite firstn_length in Hp.
      replace (Nat.min (l_commit (ln s n0)) (length (l_log (ln s n0)))) with (l_commit (ln s n0)) in Hp by lia.
      exact Hp.
    - apply lmkack_inv in H. cbv zeta in H. destruct H as (_ & _ & _ & _ & ->). cbn [set_ln ln].
      destruct (N.eqb_spec n q) as [->|Hne]; cbn; split; try lia; reflexivity.
    - apply lrelack_inv in H. destruct H as (_ & _ & _ & ->).
      destruct (acked s q t <? i)%nat; cbn; split; try lia; reflexivity.
    - apply lcommitl_inv in H. cbv zeta in H. destruct H as (_ & _ & Hk & _ & _ & ->).
      destruct (is_prefix _ _ && _)%bool; cbn [add_cpt set_acked set_ln ln];
        (destruct (N.eqb_spec n c) as [->|Hne]; cbn; split; try lia; reflexivity).
    - apply lcommitf_inv in H. destruct H as (_ & _ & Hk & _ & ->). cbn [set_ln ln].
      destruct (N.eqb_spec n n0) as [->|Hne]; cbn; split; try lia; reflexivity.
    - apply llogimage_inv in H. destruct H as (_ & ->). cbn [set_ln ln].
      destruct (N.eqb_spec n n0) as [->|Hne]; cbn; split; try lia; reflexivity.
    - apply llogfsync_inv in H. destruct H as (img & rest & _ & _ & _ & ->). cbn [set_ln ln].
      destruct (N.eqb_spec n n0) as [->|Hne]; cbn; split; try lia; reflexivity.
  Qed.

  (* the excluded step: a crash resets the commit index and falls back to the durable log *)
  Theorem crash_falls_back s n s' : lrule (LEl (LCrash n)) s = Some s' ->
    l_commit (ln s' n) = 0%nat /\ l_log (ln s' n) = l_dlog (ln s n) /\ l_dlog (ln s' n) = l_dlog (ln s n).
  Proof.
    intros H. destruct (lel_inv _ _ _ _ _ H) as (e' & He & Hel & ->). cbn. rewrite N.eqb_refl. cbn. auto.
  Qed.

  (* the commit index never exceeds the volatile log *)
  Theorem commit_within_log s n : lreachable s -> (l_commit (ln s n) <= length (l_log (ln s n)))%nat.
  Proof. intros Hr. apply (li_G s (lreachable_LInv inc out inc_nonempty Hmulti s Hr)). Qed.
End C05.

(* the sanity scenario *)
Definition sc : list llabel :=
  [LEl (LCampaign 1); LEl (LImage 1); LEl (LFsync 1); LEl (LReleaseReq 1 1);
   LEl (LGrant 2 1 1); LEl (LImage 2); LEl (LFsync 2); LEl (LReleaseGrant 2 1);
   LEl (LRecvGrant 1 2); LEl (LBecomeLeader 1);
   LPropose 1 7; LLogImage 1; LLogFsync 1;
   LAdopt 2 2; LMkAck 2 2%nat; LLogImage 2; LLogFsync 2; LRelAck 2 1 2%nat; LCommitL 1 2%nat;
   LEl (LUpdateTerm 3 1); LAdopt 3 1; LCommitF 3 1; LCommitF 2 2].

Lemma sc_runs :
  exists s, lrun [1;2;3] [] sc linit = Some s /\
    l_log (ln s 1) = [(1,0);(1,7)] /\ l_log (ln s 3) = [(1,0)] /\
    l_commit (ln s 1) = 2%nat /\ l_commit (ln s 2) = 2%nat /\ l_commit (ln s 3) = 1%nat /\
    cpts s = [(1,2%nat)] /\ acked s 2 1 = 2%nat.
Proof. eexists. split; [vm_compute; reflexivity|]. vm_compute. repeat split. Qed.
