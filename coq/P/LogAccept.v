(* Executable acceptor for the log layer of P (tie B for C05 / C04 / C03 / C01):
   decides whether an observed implementation trace is an execution of P/Log.v.
   On top of the election events (P/ElectionAccept.v) the trace carries, per API
   call, the acting node's full (ghost, never compacted) log and commit index
   after the call and the acknowledgements it created, every change of a
   node's durable log, and every released acknowledgement.  Labels are
   synthesised (untrusted), run through [lrule], and the result must project to
   the observation.  An accepted trace is a P execution ([laccept_trace_reachable]). *)
From RV Require Import Base.Prelude M.Quorum P.Election P.ElectionAccept P.Log.

Local Open Scope N_scope.

Inductive levent :=
| LvEl (e : event)                                   (* an election-layer event *)
| LvLog (n : N) (log : list ent) (commit : nat) (acks : list nat)
    (* after an API call on n: its full log, commit index, indexes of the
       acknowledgements (non-rejecting MsgAppendResponse of its term) it created *)
| LvDurable (n : N) (dlog : list ent)                (* n's durable log after a write *)
| LvRelAck (q t : N) (i : nat).                      (* released acknowledgement *)

Definition is_leader_now (s : lst) (n : N) : bool :=
  match p_role (nodes (el s) n) with PL => true | _ => false end.

(* entries of [new] beyond [old] when [old] is a prefix of [new] *)
Definition suffix_after (old new : list ent) : option (list ent) :=
  if is_prefix old new then Some (skipn (length old) new) else None.

Definition synth_log (s : lst) (n : N) (log : list ent) (commit : nat) (acks : list nat) : list llabel :=
  let x := ln s n in
  let change :=
    if log_eqb (l_log x) log then []
    else if is_leader_now s n then
      match suffix_after (l_log x) log with
      | Some ext => map (fun e => LPropose n (snd e)) ext
      | None => [LAdopt n (length log)]     (* a leader never rewrites: forces a rejection *)
      end
    else [LAdopt n (length log)] in
  (* an image after every observation (the no-op of a new leader is appended by the election rule) *)
  let img := [LLogImage n] in
  let mk := map (fun i => LMkAck n i) acks in
  let cm := if (l_commit x <? commit)%nat
            then [if is_leader_now s n then LCommitL n commit else LCommitF n commit]
            else [] in
  change ++ img ++ mk ++ cm.

Fixpoint log_images_upto (imgs : list (list ent)) (d : list ent) : option nat :=
  match imgs with
  | [] => None
  | i :: rest =>
      if log_eqb i d then Some 1%nat
      else match log_images_upto rest d with Some k => Some (S k) | None => None end
  end.

Section Accept.
  Variables (inc out : list N).

  Definition lsynth (s : lst) (e : levent) : list llabel :=
    match e with
    | LvEl ev => map LEl (synth (el s) ev)
    | LvLog n log commit acks => synth_log s n log commit acks
    | LvDurable n d =>
        if log_eqb (l_dlog (ln s n)) d then []
        else match log_images_upto (l_imgs (ln s n)) d with
             | Some k => repeat (LLogFsync n) k
             | None => [LLogFsync 0; LLogFsync 0; LAdopt 0 0]   (* no such image: forces a rejection *)
             end
    | LvRelAck q t i => [LRelAck q t i]
    end.

  Definition laccept (s : lst) (e : levent) : lst + N :=
    let pre_ok := match e with
                  | LvEl (ECall n t v r _ _ _ _) => node_matches (el s) n t v r
                  | _ => true
                  end in
    if negb pre_ok then inr R_PRE else
    match lrun inc out (lsynth s e) s with
    | None => inr R_GUARD
    | Some s' =>
        let post_ok :=
          match e with
          | LvEl (ECall n _ _ _ t' v' r' _) => node_matches (el s') n t' v' r'
          | LvEl (ERestart n t v) => node_matches (el s') n t v 0
          | LvEl (EFsync n t v) =>
              (p_dterm (nodes (el s') n) =? t) && (p_dvote (nodes (el s') n) =? v)
          | LvEl (ESend 2 from to t) =>
              match voted (el s) from t with Some c => c =? to | None => false end
          | LvLog n log commit _ =>
              log_eqb (l_log (ln s' n)) log && (l_commit (ln s' n) =? commit)%nat
          | LvDurable n d => log_eqb (l_dlog (ln s' n)) d
          | _ => true
          end in
        if post_ok then inl s' else inr R_POST
    end.

  Fixpoint laccept_trace (s : lst) (es : list levent) (i : N) : lst * option (N * N) :=
    match es with
    | [] => (s, None)
    | e :: rest =>
        match laccept s e with
        | inl s' => laccept_trace s' rest (i + 1)
        | inr why => (s, Some (i, why))
        end
    end.

  Lemma lrun_reachable ls : forall s s',
    lreachable inc out s -> lrun inc out ls s = Some s' -> lreachable inc out s'.
  Proof.
    induction ls as [|l rest IH]; intros s s' Hr H; cbn in H.
    - inversion H; subst. exact Hr.
    - destruct (lrule inc out l s) as [s1|] eqn:E; [|discriminate].
      eapply IH; [|exact H]. eapply lreach_step; eassumption.
  Qed.

  Theorem laccept_reachable s e s' :
    lreachable inc out s -> laccept s e = inl s' -> lreachable inc out s'.
  Proof.
    unfold laccept. intros Hr H.
    destruct (negb _); [discriminate|].
    destruct (lrun inc out (lsynth s e) s) as [s1|] eqn:E; [|discriminate].
    match type of H with (if ?c then _ else _) = _ => destruct c end; [|discriminate].
    inversion H; subst. eapply lrun_reachable; eassumption.
  Qed.

  Theorem laccept_trace_reachable es : forall s i s',
    lreachable inc out s -> laccept_trace s es i = (s', None) -> lreachable inc out s'.
  Proof.
    induction es as [|e rest IH]; intros s i s' Hr H; cbn in H.
    - inversion H; subst. exact Hr.
    - destruct (laccept s e) as [s1|why] eqn:E; [|discriminate].
      eapply IH; [|exact H]. eapply laccept_reachable; eassumption.
  Qed.
End Accept.
