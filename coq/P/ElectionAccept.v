(* Executable acceptor for the election layer of P (refinement differential, tie B):
   decides whether an observed implementation trace — per-node (term, vote, role)
   before/after every API call, hand-out and fsync of hard states, released
   messages, crashes, restarts — is an execution of P.  For each event a label
   sequence is synthesised (untrusted), run through [prule], and the resulting
   abstract state must project to the observation.  Soundness (an accepted trace
   is a P execution, hence every theorem about reachable P states applies to
   every recorded implementation state) is [accept_trace_reachable] below. *)
From RV Require Import Base.Prelude M.Quorum P.Election P.ElectionProofs.

Local Open Scope N_scope.

Inductive event :=
| ECall (n t v r t' v' r' : N) (gfrom : option N)
    (* API call on node n: (term, vote, role) before and after; gfrom = sender of a
       non-rejecting MsgRequestVoteResponse of the node's current term that the call consumed *)
| EReady (n : N)                   (* ready() handed out a hard state *)
| EFsync (n t v : N)               (* the hard state (t, v, _) of a Ready became durable *)
| ESend (kind from to t : N)       (* released: 1 vote request, 2 vote grant, 3 leader traffic *)
| ECrash (n : N)
| ERestart (n t v : N).            (* (term, vote) loaded from stable storage *)

(* implementation role codes: 0 Follower, 1 Candidate, 2 Leader, 3 PreCandidate *)
Definition prole_of (r : N) : prole := if r =? 1 then PC else if r =? 2 then PL else PF.

Definition prole_eqb (a b : prole) : bool :=
  match a, b with PF, PF | PC, PC | PL, PL => true | _, _ => false end.

Definition node_matches (s : pst) (n t v r : N) : bool :=
  let p := nodes s n in
  (p_term p =? t) && (p_vote p =? v) && prole_eqb (p_role p) (prole_of r).

(* The implementation hands out only the LATEST (term, vote) per Ready; a message
   created under an intermediate (term, vote) that the next Ready skips is
   released once the later hard state is durable (it supersedes the promise).
   The acceptor therefore takes a P image at every change of (term, vote) and, when
   a hard state becomes durable, fsyncs every older image with it, in order, in one
   atomic event: the intermediate durable values are never observable (no crash
   can fall inside an event), and at every event boundary P's durable image is the
   implementation's. *)
Fixpoint images_upto (imgs : list (N * N)) (t v : N) : option nat :=
  match imgs with
  | [] => None
  | (t1, v1) :: rest =>
      if (t1 =? t) && (v1 =? v) then Some 1%nat
      else match images_upto rest t v with Some k => Some (S k) | None => None end
  end.

Definition synth (s : pst) (e : event) : list label :=
  match e with
  | ECall n t v r t' v' r' gfrom =>
      (if t <? t' then
        if (v' =? n) && (t' =? t + 1) then
          LCampaign n :: match prole_of r' with
                         | PL => [LBecomeLeader n]
                         | PF => [LStepDown n]
                         | PC => []
                         end
        else if negb (v' =? 0) then [LGrant n v' t']
        else [LUpdateTerm n t']
      else
        (match gfrom with
         | Some k => match prole_of r with PC => [LRecvGrant n k] | _ => [] end
         | None => []
         end)
        ++ (if (v =? 0) && negb (v' =? 0) then [LGrant n v' t] else [])
        ++ (match prole_of r, prole_of r' with
            | PC, PL => [LBecomeLeader n]
            | PC, PF | PL, PF => [LStepDown n]
            | _, _ => []
            end))
      ++ (if (t =? t') && (v =? v') then [] else [LImage n])
  | EReady n => [LImage n]
  | EFsync n t v =>
      match images_upto (p_imgs (nodes s n)) t v with
      | Some k => repeat (LFsync n) k
      | None =>
          (* a write that leaves (term, vote) as they durably are (only the commit index moved) is
             no election-layer step; otherwise no such image: forces a rejection (node 0 never exists) *)
          if (p_dterm (nodes s n) =? t) && (p_dvote (nodes s n) =? v) then []
          else [LStepDown 0; LRestart 0]
      end
  | ESend kind from to t =>
      if kind =? 1 then [LReleaseReq from t]
      else if kind =? 2 then [LReleaseGrant from t]
      else if kind =? 3 then [LReleaseLeader from t]
      else []
  | ECrash n => [LCrash n]
  | ERestart n _ _ => [LRestart n]
  end.

Section Accept.
  Variables (inc out : list N).

  (* rejection reasons *)
  Definition R_PRE : N := 1.     (* the abstract state does not project to the observed pre-state *)
  Definition R_GUARD : N := 2.   (* a rule's guard is false: the implementation did something P forbids *)
  Definition R_POST : N := 3.    (* the rules do not produce the observed post-state *)

  Definition accept (s : pst) (e : event) : pst + N :=
    let pre_ok := match e with
                  | ECall n t v r _ _ _ _ => node_matches s n t v r
                  | _ => true
                  end in
    if negb pre_ok then inr R_PRE else
    match prun inc out (synth s e) s with
    | None => inr R_GUARD
    | Some s' =>
        let post_ok := match e with
                       | ECall n _ _ _ t' v' r' _ => node_matches s' n t' v' r'
                       | ERestart n t v => node_matches s' n t v 0
                       | EFsync n t v => (p_dterm (nodes s' n) =? t) && (p_dvote (nodes s' n) =? v)
                       | ESend 2 from to t =>
                           match voted s from t with Some c => c =? to | None => false end
                       | _ => true
                       end in
        if post_ok then inl s' else inr R_POST
    end.

  (* folds a trace; result: number of accepted events, or (index, reason) of the first rejection *)
  Fixpoint accept_trace (s : pst) (es : list event) (i : N) : pst * option (N * N) :=
    match es with
    | [] => (s, None)
    | e :: rest =>
        match accept s e with
        | inl s' => accept_trace s' rest (i + 1)
        | inr why => (s, Some (i, why))
        end
    end.

  Lemma prun_reachable ls : forall s s', reachable inc out s -> prun inc out ls s = Some s' -> reachable inc out s'.
  Proof.
    induction ls as [|l rest IH]; intros s s' Hr H; cbn in H.
    - inversion H; subst. exact Hr.
    - destruct (prule inc out l s) as [s1|] eqn:E; [|discriminate].
      eapply IH; [|exact H]. eapply reach_step; eassumption.
  Qed.

  Theorem accept_reachable s e s' : reachable inc out s -> accept s e = inl s' -> reachable inc out s'.
  Proof.
    unfold accept. intros Hr H.
    destruct (negb _); [discriminate|].
    destruct (prun inc out (synth s e) s) as [s1|] eqn:E; [|discriminate].
    destruct (match e with ECall _ _ _ _ _ _ _ _ => _ | _ => _ end); [|discriminate].
    inversion H; subst. eapply prun_reachable; eassumption.
  Qed.

  (* every prefix of an accepted trace ends in a reachable state of P *)
  Theorem accept_trace_reachable es : forall s i s',
    reachable inc out s -> accept_trace s es i = (s', None) -> reachable inc out s'.
  Proof.
    induction es as [|e rest IH]; intros s i s' Hr H; cbn in H.
    - inversion H; subst. exact Hr.
    - destruct (accept s e) as [s1|why] eqn:E; [|discriminate].
      eapply IH; [|exact H]. eapply accept_reachable; eassumption.
  Qed.
End Accept.
