(* Election safety and durability of votes for the abstract protocol P/Election.v. *)
From RV Require Import Base.Prelude M.Quorum M.QuorumProofs P.Election.

Local Open Scope N_scope.

(* (term, vote) order along an incarnation: the term grows, or within a term the
   vote goes from none to one candidate and then stays *)
Definition le_tv (a b : N * N) : Prop :=
  fst a < fst b \/ (fst a = fst b /\ (snd a = 0 \/ snd a = snd b)).

Lemma le_tv_refl a : le_tv a a.
Proof. right. auto. Qed.

Lemma le_tv_trans a b c : le_tv a b -> le_tv b c -> le_tv a c.
Proof. unfold le_tv. intros [H1|[H1 H1']] [H2|[H2 H2']]; try (left; lia). right. split; [lia|].
  destruct H1' as [E|E]; [auto|]. destruct H2' as [E2|E2]; [left; congruence|right; congruence]. Qed.

Fixpoint chain (a : N * N) (l : list (N * N)) : Prop :=
  match l with
  | [] => True
  | b :: r => le_tv a b /\ chain b r
  end.

Lemma chain_replace_last a l x y : chain a (l ++ [x]) -> le_tv x y -> chain a (l ++ [y]).
Proof.
  revert a. induction l as [|b r IH]; intros a H Hxy; cbn in *.
  - destruct H as [H _]. split; [eapply le_tv_trans; eassumption|exact I].
  - destruct H as [H1 H2]. split; [exact H1|]. apply IH; assumption.
Qed.

Lemma chain_snoc_same a l x : chain a (l ++ [x]) -> chain a ((l ++ [x]) ++ [x]).
Proof.
  revert a. induction l as [|b r IH]; intros a H; cbn in *.
  - destruct H as [H _]. split; [exact H|]. split; [apply le_tv_refl|exact I].
  - destruct H as [H1 H2]. split; [exact H1|]. apply IH. exact H2.
Qed.

Lemma chain_ends a l x : chain a (l ++ [x]) -> le_tv a x.
Proof.
  revert a. induction l as [|b r IH]; intros a H; cbn in *.
  - destruct H as [H _]. exact H.
  - destruct H as [H1 H2]. eapply le_tv_trans; [exact H1|]. apply IH. exact H2.
Qed.

Definition vol (p : pnode) : N * N := (p_term p, p_vote p).
Definition dur (p : pnode) : N * N := (p_dterm p, p_dvote p).

Section Proofs.
  Variables (inc out : list N).
  Hypothesis inc_nonempty : inc <> [].

  Notation prule := (prule inc out).
  Notation reachable := (reachable inc out).
  Notation quorum := (quorum inc out).

  Record Inv (s : pst) : Prop := {
    (* durable image, handed-out images and volatile state are ordered *)
    inv_chain : forall n, chain (dur (nodes s n)) (p_imgs (nodes s n) ++ [vol (nodes s n)]);
    (* the durable vote history agrees with the durable image *)
    inv_voted_dur : forall n t c, voted s n t = Some c ->
        c <> 0 /\ (t < p_dterm (nodes s n) \/ (t = p_dterm (nodes s n) /\ p_dvote (nodes s n) = c));
    inv_dur_voted : forall n, p_dvote (nodes s n) <> 0 ->
        voted s n (p_dterm (nodes s n)) = Some (p_dvote (nodes s n));
    (* released messages are backed by durable votes *)
    inv_grant : forall n c t, In (Grant n c t) (net s) -> voted s n t = Some c;
    inv_req : forall c t, In (VoteReq c t) (net s) -> voted s c t = Some c;
    inv_lmsg : forall n t, In (LeaderMsg n t) (net s) -> voted s n t = Some n /\ In n (leaders s t);
    (* candidates and leaders voted for themselves *)
    inv_self : forall n, p_role (nodes s n) <> PF -> p_vote (nodes s n) = n /\ n <> 0;
    (* recorded grants are durable votes of the current term *)
    inv_granted : forall c q, p_role (nodes s c) = PC -> In q (p_granted (nodes s c)) ->
        q = c \/ voted s q (p_term (nodes s c)) = Some c;
    (* a vote for somebody else implies that candidate durably voted for itself *)
    inv_other : forall q t c, voted s q t = Some c -> q <> c -> voted s c t = Some c;
    inv_pending : forall n t c, In (t, c) (p_imgs (nodes s n) ++ [vol (nodes s n)]) ->
        c <> 0 -> c <> n -> voted s c t = Some c;
    (* every leader ever had a quorum of durable votes (its own counted as cast) *)
    inv_leader : forall t c, In c (leaders s t) ->
        exists Q, quorum Q = true /\ forall q, In q Q -> q = c \/ voted s q t = Some c
  }.

  Lemma in_net_In m l : in_net m l = true -> In m l.
  Proof.
    unfold in_net. intros H. apply existsb_exists in H. destruct H as (x & Hx & He).
    destruct m, x; cbn in He; try discriminate.
    - apply andb_prop in He. destruct He as [A B]. apply N.eqb_eq in A, B. subst. exact Hx.
    - apply andb_prop in He. destruct He as [A B]. apply andb_prop in A. destruct A as [A C].
      apply N.eqb_eq in A, B, C. subst. exact Hx.
    - apply andb_prop in He. destruct He as [A B]. apply N.eqb_eq in A, B. subst. exact Hx.
  Qed.

  Lemma Inv_init : Inv pinit.
  Proof.
    constructor; cbn; intros.
    - split; [apply le_tv_refl|exact I].
    - discriminate.
    - congruence.
    - contradiction.
    - contradiction.
    - contradiction.
    - congruence.
    - discriminate.
    - discriminate.
    - destruct H as [H|[]]. inversion H; subst. congruence.
    - contradiction.
  Qed.

  (* nodes other than the acting one, the network and the ghosts are untouched by set_node *)
  Lemma nodes_set_same s n p : nodes (set_node s n p) n = p.
  Proof. cbn. rewrite N.eqb_refl. reflexivity. Qed.
  Lemma nodes_set_other s n p k : k <> n -> nodes (set_node s n p) k = nodes s k.
  Proof. intros H. cbn. apply N.eqb_neq in H. rewrite H. reflexivity. Qed.

  (* a step that only rewrites node n, leaving its durable image, the images, the
     network and the ghosts alone, preserves the invariant once the node-local facts hold *)
  Lemma Inv_set_node s n p :
    Inv s ->
    p_dterm p = p_dterm (nodes s n) -> p_dvote p = p_dvote (nodes s n) ->
    chain (dur p) (p_imgs p ++ [vol p]) ->
    (p_role p <> PF -> p_vote p = n /\ n <> 0) ->
    (forall q, p_role p = PC -> In q (p_granted p) -> q = n \/ voted s q (p_term p) = Some n) ->
    (forall t c, In (t, c) (p_imgs p ++ [vol p]) -> c <> 0 -> c <> n -> voted s c t = Some c) ->
    Inv (set_node s n p).
  Proof.
    intros HI Hdt Hdv Hch Hself Hgr Hpend. destruct HI.
    constructor; intros.
    - destruct (N.eq_dec n0 n) as [->|Hne]; [rewrite nodes_set_same; exact Hch|].
      rewrite nodes_set_other by exact Hne. apply inv_chain0.
    - change (voted (set_node s n p)) with (voted s) in H.
      destruct (N.eq_dec n0 n) as [->|Hne].
      + rewrite nodes_set_same, Hdt, Hdv. eapply inv_voted_dur0; eassumption.
      + rewrite nodes_set_other by exact Hne. eapply inv_voted_dur0; eassumption.
    - change (voted (set_node s n p)) with (voted s).
      destruct (N.eq_dec n0 n) as [->|Hne].
      + rewrite nodes_set_same in *. rewrite Hdt, Hdv in *. apply inv_dur_voted0. exact H.
      + rewrite nodes_set_other in * by exact Hne. apply inv_dur_voted0. exact H.
    - apply inv_grant0. exact H.
    - apply inv_req0. exact H.
    - apply inv_lmsg0. exact H.
    - destruct (N.eq_dec n0 n) as [->|Hne].
      + rewrite nodes_set_same in *. apply Hself. exact H.
      + rewrite nodes_set_other in * by exact Hne. apply inv_self0. exact H.
    - change (voted (set_node s n p)) with (voted s).
      destruct (N.eq_dec c n) as [->|Hne].
      + rewrite nodes_set_same in *. apply Hgr; assumption.
      + rewrite nodes_set_other in * by exact Hne. apply inv_granted0; assumption.
    - eapply inv_other0; eassumption.
    - change (voted (set_node s n p)) with (voted s).
      destruct (N.eq_dec n0 n) as [->|Hne].
      + rewrite nodes_set_same in *. eapply Hpend; eassumption.
      + rewrite nodes_set_other in * by exact Hne. eapply inv_pending0; eassumption.
    - apply inv_leader0. exact H.
  Qed.

  Lemma Inv_add_msg s m :
    Inv s ->
    (forall n c t, m = Grant n c t -> voted s n t = Some c) ->
    (forall c t, m = VoteReq c t -> voted s c t = Some c) ->
    (forall n t, m = LeaderMsg n t -> voted s n t = Some n /\ In n (leaders s t)) ->
    Inv (add_msg s m).
  Proof.
    intros HI Hg Hr Hl. destruct HI. constructor; intros; cbn in *; eauto.
    - destruct H as [H|H]; [eapply Hg; eauto|eapply inv_grant0; eauto].
    - destruct H as [H|H]; [eapply Hr; eauto|eapply inv_req0; eauto].
    - destruct H as [H|H]; [eapply Hl; eauto|eapply inv_lmsg0; eauto].
  Qed.

  Lemma in_app_last {A} (x : A) l y : In x (l ++ [y]) <-> In x l \/ x = y.
  Proof. rewrite in_app_iff. cbn. intuition. Qed.

  Theorem Inv_step s l s' : Inv s -> prule l s = Some s' -> Inv s'.
  Proof.
    intros HI H. pose proof HI as HI0. destruct HI.
    destruct l as [n|n|n|n t|n c t|n t|n t|c n|c|n t|n|n|n]; cbn [Election.prule] in H.
    - (* campaign *)
      destruct (p_up (nodes s n) && negb (n =? 0)) eqn:Hg; [|discriminate]. inversion H; subst; clear H.
      apply andb_prop in Hg. destruct Hg as [_ Hn0]. apply negb_true_iff, N.eqb_neq in Hn0.
      apply Inv_set_node; [exact HI0|reflexivity|reflexivity| | | |]; cbn.
      + eapply chain_replace_last; [apply inv_chain0|]. left. cbn. lia.
      + intros _. auto.
      + intros q _ [<-|[]]. left. reflexivity.
      + intros t c Hin Hc0 Hcn. apply in_app_last in Hin. destruct Hin as [Hin|Hin].
        * eapply inv_pending0; eauto. apply in_app_last. left. exact Hin.
        * inversion Hin; subst. congruence.
    - (* image *)
      destruct (p_up (nodes s n)); [|discriminate]. inversion H; subst; clear H.
      apply Inv_set_node; [exact HI0|reflexivity|reflexivity| | | |]; cbn.
      + apply (chain_snoc_same _ _ _ (inv_chain0 n)).
      + apply inv_self0.
      + intros q Hr Hq. apply inv_granted0; assumption.
      + intros t c Hin. apply in_app_last in Hin. destruct Hin as [Hin|Hin].
        * eapply inv_pending0; eauto.
        * inversion Hin; subst. eapply inv_pending0. apply in_app_last. right. reflexivity.
    - (* fsync *)
      destruct (p_imgs (nodes s n)) as [|[t c] rest] eqn:Himgs; [discriminate|].
      destruct (p_up (nodes s n)); [|discriminate]. inversion H; subst; clear H.
      pose proof (inv_chain0 n) as Hch. rewrite Himgs in Hch. cbn in Hch. destruct Hch as [Hle Hch].
      (* the new durable pair is consistent with the durable history *)
      assert (Hmono : forall t' c', voted s n t' = Some c' ->
                c' <> 0 /\ (t' < t \/ (t' = t /\ c = c'))).
      { intros t' c' Hv. destruct (inv_voted_dur0 _ _ _ Hv) as [Hc0 Hd]. split; [exact Hc0|].
        unfold le_tv, dur in Hle. cbn in Hle.
        destruct Hd as [Hd|[Hd1 Hd2]]; [destruct Hle as [Hle|[Hle _]]; left; lia|].
        destruct Hle as [Hle|[Hle1 Hle2]]; [left; lia|]. right. split; [lia|].
        destruct Hle2 as [E|E]; congruence. }
      set (p' := mkPN true (p_term (nodes s n)) (p_vote (nodes s n)) (p_role (nodes s n))
                      (p_granted (nodes s n)) t c rest).
      (* voted only grows, consistently *)
      assert (Hkeep : forall s1, voted s1 = voted s ->
                forall n' t' c', voted s n' t' = Some c' ->
                  voted (if c =? 0 then s1 else set_voted s1 n t c) n' t' = Some c').
      { intros s1 Hs1 n' t' c' Hv. destruct (c =? 0); [rewrite Hs1; exact Hv|].
        cbn. destruct ((n' =? n) && (t' =? t)) eqn:E; [|rewrite Hs1; exact Hv].
        apply andb_prop in E. destruct E as [E1 E2]. apply N.eqb_eq in E1, E2. subst.
        destruct (Hmono _ _ Hv) as [_ [Hlt|[_ <-]]]; [lia|reflexivity]. }
      assert (Hnodes : forall k, nodes (if c =? 0 then set_node s n p' else set_voted (set_node s n p') n t c) k
                                 = nodes (set_node s n p') k) by (intros; destruct (c =? 0); reflexivity).
      assert (Hnet : net (if c =? 0 then set_node s n p' else set_voted (set_node s n p') n t c) = net s)
        by (destruct (c =? 0); reflexivity).
      assert (Hlead : leaders (if c =? 0 then set_node s n p' else set_voted (set_node s n p') n t c) = leaders s)
        by (destruct (c =? 0); reflexivity).
      assert (Hnew : c <> 0 -> voted (if c =? 0 then set_node s n p' else set_voted (set_node s n p') n t c) n t = Some c).
      { intros Hc. apply N.eqb_neq in Hc. rewrite Hc. cbn. rewrite !N.eqb_refl. reflexivity. }
      assert (Hinv : forall n' t' c', voted (if c =? 0 then set_node s n p' else set_voted (set_node s n p') n t c) n' t' = Some c' ->
                voted s n' t' = Some c' \/ (n' = n /\ t' = t /\ c' = c /\ c <> 0)).
      { intros n' t' c'. destruct (N.eqb_spec c 0) as [Hc|Hc]; [cbn; auto|].
        cbn. destruct ((n' =? n) && (t' =? t)) eqn:E; [|auto].
        apply andb_prop in E. destruct E as [E1 E2]. apply N.eqb_eq in E1, E2. subst.
        intros Hx. inversion Hx; subst. right. auto. }
      constructor; intros; rewrite ?Hnodes, ?Hnet, ?Hlead in *.
      + destruct (N.eq_dec n0 n) as [->|Hne]; [rewrite nodes_set_same; exact Hch|].
        rewrite nodes_set_other by exact Hne. apply inv_chain0.
      + destruct (Hinv _ _ _ H) as [Hold|(-> & -> & -> & Hc)].
        * destruct (N.eq_dec n0 n) as [->|Hne].
          -- rewrite nodes_set_same. cbn. destruct (Hmono _ _ Hold) as [A B]. split; [exact A|].
             destruct B as [B|[B1 B2]]; [left; exact B|right; split; [exact B1|exact B2]].
          -- rewrite nodes_set_other by exact Hne. eapply inv_voted_dur0. exact Hold.
        * rewrite nodes_set_same. cbn. split; [exact Hc|]. right. auto.
      + destruct (N.eq_dec n0 n) as [->|Hne].
        * rewrite nodes_set_same in *. cbn in *. apply Hnew. exact H.
        * rewrite nodes_set_other in * by exact Hne. apply Hkeep; [reflexivity|]. apply inv_dur_voted0. exact H.
      + apply Hkeep; [reflexivity|]. apply inv_grant0. exact H.
      + apply Hkeep; [reflexivity|]. apply inv_req0. exact H.
      + destruct (inv_lmsg0 _ _ H) as [A B]. split; [apply Hkeep; [reflexivity|exact A]|exact B].
      + destruct (N.eq_dec n0 n) as [->|Hne].
        * rewrite nodes_set_same in *. cbn in *. apply inv_self0. exact H.
        * rewrite nodes_set_other in * by exact Hne. apply inv_self0. exact H.
      + destruct (N.eq_dec c0 n) as [->|Hne].
        * rewrite nodes_set_same in *. cbn in *.
          destruct (inv_granted0 _ _ H H0) as [E|E]; [left; exact E|right; apply Hkeep; [reflexivity|exact E]].
        * rewrite nodes_set_other in * by exact Hne.
          destruct (inv_granted0 _ _ H H0) as [E|E]; [left; exact E|right; apply Hkeep; [reflexivity|exact E]].
      + destruct (Hinv _ _ _ H) as [Hold|(-> & -> & -> & Hc)].
        * apply Hkeep; [reflexivity|]. eapply inv_other0; eassumption.
        * apply Hkeep; [reflexivity|]. eapply (inv_pending0 n t c); auto.
          rewrite Himgs. left. reflexivity.
      + apply Hkeep; [reflexivity|].
        destruct (N.eq_dec n0 n) as [->|Hne].
        * rewrite nodes_set_same in *. cbn in *. eapply (inv_pending0 n); eauto.
          rewrite Himgs. right. exact H.
        * rewrite nodes_set_other in * by exact Hne. eapply inv_pending0; eauto.
      + destruct (inv_leader0 _ _ H) as (Q & HQ & HQv). exists Q. split; [exact HQ|].
        intros q Hq. destruct (HQv q Hq) as [E|E]; [left; exact E|right; apply Hkeep; [reflexivity|exact E]].
    - (* release request *)
      destruct (voted s n t) as [c|] eqn:Hv; [|discriminate].
      destruct (N.eqb_spec c n) as [->|Hne]; [|discriminate]. inversion H; subst; clear H.
      apply Inv_add_msg; [exact HI0| | |]; intros; try discriminate. inversion H; subst. exact Hv.
    - (* grant *)
      destruct (p_up (nodes s n) && negb (c =? 0) && in_net (VoteReq c t) (net s)) eqn:Hg; [|discriminate].
      apply andb_prop in Hg. destruct Hg as [Hg Hin]. apply andb_prop in Hg. destruct Hg as [_ Hc0].
      apply negb_true_iff, N.eqb_neq in Hc0. apply in_net_In in Hin. apply inv_req0 in Hin.
      destruct (N.ltb_spec (p_term (nodes s n)) t) as [Hlt|Hge].
      + inversion H; subst; clear H.
        apply Inv_set_node; [exact HI0|reflexivity|reflexivity| | | |]; cbn.
        * eapply chain_replace_last; [apply inv_chain0|]. left. cbn. lia.
        * congruence.
        * discriminate.
        * intros t' c' Hx. apply in_app_last in Hx. destruct Hx as [Hx|Hx].
          -- eapply inv_pending0. apply in_app_last. left. exact Hx.
          -- inversion Hx; subst. intros _ _. exact Hin.
      + destruct ((p_term (nodes s n) =? t) && ((p_vote (nodes s n) =? 0) || (p_vote (nodes s n) =? c))) eqn:Hs;
          [|discriminate].
        inversion H; subst; clear H. apply andb_prop in Hs. destruct Hs as [Ht Hv]. apply N.eqb_eq in Ht.
        apply orb_prop in Hv.
        apply Inv_set_node; [exact HI0|reflexivity|reflexivity| | | |]; cbn.
        * eapply chain_replace_last; [apply inv_chain0|]. right. cbn. split; [lia|].
          destruct Hv as [Hv|Hv]; apply N.eqb_eq in Hv; auto.
        * intros Hr. destruct (inv_self0 _ Hr) as [Hvn Hn0]. split; [|exact Hn0].
          destruct Hv as [Hv|Hv]; apply N.eqb_eq in Hv; congruence.
        * intros q Hr Hq. subst t. apply inv_granted0; assumption.
        * intros t' c' Hx. apply in_app_last in Hx. destruct Hx as [Hx|Hx].
          -- eapply inv_pending0. apply in_app_last. left. exact Hx.
          -- inversion Hx; subst. intros _ _. exact Hin.
    - (* release grant *)
      destruct (voted s n t) as [c|] eqn:Hv; [|discriminate].
      destruct (N.eqb_spec c n) as [->|Hne]; [discriminate|]. inversion H; subst; clear H.
      apply Inv_add_msg; [exact HI0| | |]; intros; try discriminate. inversion H; subst. exact Hv.
    - (* release leader traffic *)
      destruct (voted s n t) as [c|] eqn:Hv; [|discriminate].
      destruct ((c =? n) && existsb (N.eqb n) (leaders s t)) eqn:Hg; [|discriminate].
      apply andb_prop in Hg. destruct Hg as [Hc Hl]. apply N.eqb_eq in Hc. subst c.
      apply existsb_exists in Hl. destruct Hl as (x & Hx & Hex). apply N.eqb_eq in Hex. subst x.
      inversion H; subst; clear H.
      apply Inv_add_msg; [exact HI0| | |]; intros; try discriminate. inversion H; subst. auto.
    - (* receive grant *)
      destruct (p_role (nodes s c)) eqn:Hr; try discriminate.
      destruct (p_up (nodes s c) && in_net (Grant n c (p_term (nodes s c))) (net s)) eqn:Hg; [|discriminate].
      apply andb_prop in Hg. destruct Hg as [_ Hin]. apply in_net_In, inv_grant0 in Hin.
      inversion H; subst; clear H.
      apply Inv_set_node; [exact HI0|reflexivity|reflexivity| | | |]; cbn.
      + apply inv_chain0.
      + intros _. apply inv_self0. congruence.
      + intros q _ [<-|Hq]; [right; exact Hin|]. apply inv_granted0; assumption.
      + intros t' c'. apply inv_pending0.
    - (* become leader *)
      destruct (p_role (nodes s c)) eqn:Hr; try discriminate.
      destruct (p_up (nodes s c) && quorum (p_granted (nodes s c))) eqn:Hg; [|discriminate].
      apply andb_prop in Hg. destruct Hg as [_ Hq]. inversion H; subst; clear H.
      set (p' := mkPN true (p_term (nodes s c)) (p_vote (nodes s c)) PL (p_granted (nodes s c))
                      (p_dterm (nodes s c)) (p_dvote (nodes s c)) (p_imgs (nodes s c))).
      assert (HI1 : Inv (set_node s c p')).
      { apply Inv_set_node; [exact HI0|reflexivity|reflexivity| | | |]; cbn.
        - apply inv_chain0.
        - intros _. apply inv_self0. congruence.
        - discriminate.
        - intros t' c'. apply inv_pending0. }
      destruct HI1 as [J1 J2 J3 J4 J5 JL J6 J7 J8 J9 J10].
      constructor; intros.
      + apply J1.
      + eapply J2; eassumption.
      + apply J3; assumption.
      + apply J4; assumption.
      + apply J5; assumption.
      + destruct (JL _ _ H) as [A B]. split; [exact A|]. cbn.
        destruct (t =? p_term (nodes s c)); [right|]; exact B.
      + apply J6; assumption.
      + apply J7; assumption.
      + eapply J8; eassumption.
      + eapply J9; eassumption.
      + cbn in H. destruct (N.eqb_spec t (p_term (nodes s c))) as [->|Hne].
        * destruct H as [<-|H].
          -- exists (p_granted (nodes s c)). split; [exact Hq|]. intros q Hin.
             apply inv_granted0; assumption.
          -- apply inv_leader0. exact H.
        * apply inv_leader0. exact H.
    - (* update term *)
      destruct (p_up (nodes s n) && (p_term (nodes s n) <? t)) eqn:Hg; [|discriminate].
      apply andb_prop in Hg. destruct Hg as [_ Hlt]. apply N.ltb_lt in Hlt.
      inversion H; subst; clear H.
      apply Inv_set_node; [exact HI0|reflexivity|reflexivity| | | |]; cbn.
      + eapply chain_replace_last; [apply inv_chain0|]. left. cbn. lia.
      + congruence.
      + discriminate.
      + intros t' c' Hx. apply in_app_last in Hx. destruct Hx as [Hx|Hx].
        * eapply inv_pending0. apply in_app_last. left. exact Hx.
        * inversion Hx; subst. congruence.
    - (* step down *)
      destruct (p_up (nodes s n)); [|discriminate]. inversion H; subst; clear H.
      apply Inv_set_node; [exact HI0|reflexivity|reflexivity| | | |]; cbn.
      + apply inv_chain0.
      + congruence.
      + discriminate.
      + intros t' c'. apply inv_pending0.
    - (* crash *)
      destruct (p_up (nodes s n)); [|discriminate]. inversion H; subst; clear H.
      apply Inv_set_node; [exact HI0|reflexivity|reflexivity| | | |]; cbn.
      + split; [apply le_tv_refl|exact I].
      + congruence.
      + discriminate.
      + intros t' c' [Hx|[]] Hc0 Hcn. inversion Hx; subst.
        eapply inv_other0; [apply inv_dur_voted0; exact Hc0|congruence].
    - (* restart *)
      destruct (p_up (nodes s n)); [discriminate|]. inversion H; subst; clear H.
      apply Inv_set_node; [exact HI0|reflexivity|reflexivity| | | |]; cbn.
      + split; [|exact I]. apply (chain_ends _ _ _ (inv_chain0 n)).
      + congruence.
      + discriminate.
      + intros t' c' [Hx|[]]. inversion Hx; subst. eapply inv_pending0. apply in_app_last. right. reflexivity.
  Qed.
End Proofs.

Section Safety.
  Variables (inc out : list N).
  Hypothesis inc_nonempty : inc <> [].

  Notation reachable := (reachable inc out).
  Notation quorum := (quorum inc out).

  Theorem reachable_Inv s : reachable s -> Inv inc out s.
  Proof.
    induction 1 as [|s l s' _ IH Hstep]; [apply Inv_init|]. eapply Inv_step; eassumption.
  Qed.

  (* One vote per node and term, ever (across crashes and restarts): a released
     grant is backed by the write-once durable vote history. *)
  Theorem one_vote_ever s n t c1 c2 :
    reachable s -> In (Grant n c1 t) (net s) -> In (Grant n c2 t) (net s) -> c1 = c2.
  Proof.
    intros Hr H1 H2. destruct (reachable_Inv s Hr).
    apply inv_grant0 in H1. apply inv_grant0 in H2. congruence.
  Qed.

  (* Two nodes that ever led the same term, each with its own vote durable, are the
     same node — for EVERY (joint) configuration, singleton voter sets included. *)
  Theorem election_safety_durable s t c1 c2 :
    reachable s -> In c1 (leaders s t) -> In c2 (leaders s t) ->
    voted s c1 t = Some c1 -> voted s c2 t = Some c2 -> c1 = c2.
  Proof.
    intros Hr H1 H2 V1 V2. destruct (reachable_Inv s Hr).
    destruct (inv_leader0 _ _ H1) as (Q1 & HQ1 & HV1).
    destruct (inv_leader0 _ _ H2) as (Q2 & HQ2 & HV2).
    destruct (has_quorum_intersect inc out Q1 Q2 HQ1 HQ2) as [Hi _].
    destruct (Hi inc_nonempty) as (q & _ & Hq1 & Hq2).
    destruct (HV1 q Hq1) as [E1|E1]; destruct (HV2 q Hq2) as [E2|E2]; congruence.
  Qed.

  (* When no single node is a quorum (every quorum has a member other than any
     given node) nothing about durability of the leader's own vote is needed:
     at most one node ever leads a term. *)
  Definition no_single_quorum : Prop :=
    forall S x, quorum S = true -> exists y, In y S /\ y <> x.

  Theorem election_safety s t c1 c2 :
    no_single_quorum -> reachable s -> In c1 (leaders s t) -> In c2 (leaders s t) -> c1 = c2.
  Proof.
    intros Hmulti Hr H1 H2. pose proof (reachable_Inv s Hr) as HI. destruct HI.
    destruct (inv_leader0 _ _ H1) as (Q1 & HQ1 & HV1).
    destruct (inv_leader0 _ _ H2) as (Q2 & HQ2 & HV2).
    (* each leader's own vote is durable: some other member of its quorum voted for it *)
    assert (D1 : voted s c1 t = Some c1).
    { destruct (Hmulti Q1 c1 HQ1) as (y & Hy & Hne). destruct (HV1 y Hy) as [E|E]; [congruence|].
      eapply inv_other0; eassumption. }
    assert (D2 : voted s c2 t = Some c2).
    { destruct (Hmulti Q2 c2 HQ2) as (y & Hy & Hne). destruct (HV2 y Hy) as [E|E]; [congruence|].
      eapply inv_other0; eassumption. }
    eapply election_safety_durable; eassumption.
  Qed.

  (* role-level reading: a node currently in the leader role is recorded for its term *)
  Lemma leader_recorded s n :
    reachable s -> p_role (nodes s n) = PL -> In n (leaders s (p_term (nodes s n))).
  Proof.
    induction 1 as [|s l s' Hr IH Hstep]; [discriminate|].
    assert (Hcase : forall k p',
               (p_role p' = PL -> p_role (nodes s k) = PL /\ p_term p' = p_term (nodes s k)) ->
               forall s1, (forall x, nodes s1 x = nodes (set_node s k p') x) -> leaders s1 = leaders s ->
               p_role (nodes s1 n) = PL -> In n (leaders s1 (p_term (nodes s1 n)))).
    { intros k p' Hp s1 Hn Hl. rewrite Hn, Hl. destruct (N.eq_dec n k) as [->|Hne].
      - rewrite nodes_set_same. intros Hx. destruct (Hp Hx) as [A B]. rewrite B. apply IH. exact A.
      - rewrite nodes_set_other by exact Hne. exact IH. }
    assert (Hsame : forall k x, nodes s x = nodes (set_node s k (nodes s k)) x).
    { intros k x. cbn. destruct (N.eqb_spec x k) as [->|]; reflexivity. }
    destruct l as [k|k|k|k t|k c t|k t|k t|c k|c|k t|k|k|k]; cbn [prule] in Hstep.
    - destruct (p_up (nodes s k) && negb (k =? 0)); [|discriminate]. inversion Hstep; subst.
      eapply Hcase; [|reflexivity|reflexivity]. cbn. discriminate.
    - destruct (p_up (nodes s k)); [|discriminate]. inversion Hstep; subst.
      eapply Hcase; [|reflexivity|reflexivity]. cbn. auto.
    - destruct (p_imgs (nodes s k)) as [|[t c] rest]; [discriminate|].
      destruct (p_up (nodes s k)); [|discriminate]. inversion Hstep; subst.
      eapply Hcase with (k := k); [|intros x; destruct (c =? 0); reflexivity|destruct (c =? 0); reflexivity].
      cbn. auto.
    - destruct (voted s k t) as [c|]; [|discriminate]. destruct (c =? k); [|discriminate].
      inversion Hstep; subst. eapply Hcase with (k := k); [|apply Hsame|reflexivity]. auto.
    - destruct (p_up (nodes s k) && negb (c =? 0) && in_net (VoteReq c t) (net s)); [|discriminate].
      destruct (p_term (nodes s k) <? t).
      + inversion Hstep; subst. eapply Hcase; [|reflexivity|reflexivity]. cbn. discriminate.
      + destruct ((p_term (nodes s k) =? t) && ((p_vote (nodes s k) =? 0) || (p_vote (nodes s k) =? c))) eqn:E;
          [|discriminate].
        inversion Hstep; subst. apply andb_prop in E. destruct E as [E _]. apply N.eqb_eq in E.
        eapply Hcase; [|reflexivity|reflexivity]. cbn. auto.
    - destruct (voted s k t) as [c|]; [|discriminate]. destruct (c =? k); [discriminate|].
      inversion Hstep; subst. eapply Hcase with (k := k); [|apply Hsame|reflexivity]. auto.
    - destruct (voted s k t) as [c|]; [|discriminate].
      destruct ((c =? k) && existsb (N.eqb k) (leaders s t)); [|discriminate].
      inversion Hstep; subst. eapply Hcase with (k := k); [|apply Hsame|reflexivity]. auto.
    - destruct (p_role (nodes s c)) eqn:Er; try discriminate.
      destruct (p_up (nodes s c) && in_net (Grant k c (p_term (nodes s c))) (net s)); [|discriminate].
      inversion Hstep; subst. eapply Hcase; [|reflexivity|reflexivity]. cbn. discriminate.
    - destruct (p_role (nodes s c)) eqn:Er; try discriminate.
      destruct (p_up (nodes s c) && quorum (p_granted (nodes s c))); [|discriminate].
      inversion Hstep; subst. cbn.
      destruct (N.eqb_spec n c) as [->|Hne]; cbn.
      + intros _. rewrite N.eqb_refl. left. reflexivity.
      + intros Hx. destruct (p_term (nodes s n) =? p_term (nodes s c)); [right|]; apply IH; exact Hx.
    - destruct (p_up (nodes s k) && (p_term (nodes s k) <? t)); [|discriminate]. inversion Hstep; subst.
      eapply Hcase; [|reflexivity|reflexivity]. cbn. discriminate.
    - destruct (p_up (nodes s k)); [|discriminate]. inversion Hstep; subst.
      eapply Hcase; [|reflexivity|reflexivity]. cbn. discriminate.
    - destruct (p_up (nodes s k)); [|discriminate]. inversion Hstep; subst.
      eapply Hcase; [|reflexivity|reflexivity]. cbn. discriminate.
    - destruct (p_up (nodes s k)); [discriminate|]. inversion Hstep; subst.
      eapply Hcase; [|reflexivity|reflexivity]. cbn. discriminate.
  Qed.

  (* C02 at the level of roles: two nodes in the leader role at the same term are the same node *)
  Theorem election_safety_roles s a b :
    no_single_quorum -> reachable s ->
    p_role (nodes s a) = PL -> p_role (nodes s b) = PL ->
    p_term (nodes s a) = p_term (nodes s b) -> a = b.
  Proof.
    intros Hm Hr Ha Hb Ht. eapply election_safety; [exact Hm|exact Hr| |].
    - apply leader_recorded; eassumption.
    - rewrite Ht. apply leader_recorded; assumption.
  Qed.

  (* Whatever the configuration (single-voter groups included): at most one node
     ever releases traffic as leader of a given term. *)
  Theorem leader_traffic_unique s t a b :
    reachable s -> In (LeaderMsg a t) (net s) -> In (LeaderMsg b t) (net s) -> a = b.
  Proof.
    intros Hr Ha Hb. pose proof (reachable_Inv s Hr) as HI. destruct HI.
    destruct (inv_lmsg0 _ _ Ha) as [Va La]. destruct (inv_lmsg0 _ _ Hb) as [Vb Lb].
    eapply election_safety_durable; eassumption.
  Qed.

  (* C06: a released promise (a vote grant, a vote request, leader traffic) is never
     ahead of the sender's durable image nor of its volatile state, so a restart
     from stable storage is never behind anything the node told another node. *)
  Theorem promises_survive s n t c :
    reachable s ->
    (In (Grant n c t) (net s) \/ (c = n /\ (In (VoteReq n t) (net s) \/ In (LeaderMsg n t) (net s)))) ->
    (t < p_dterm (nodes s n) \/ (t = p_dterm (nodes s n) /\ p_dvote (nodes s n) = c)) /\
    (t < p_term (nodes s n) \/ (t = p_term (nodes s n) /\ p_vote (nodes s n) = c)).
  Proof.
    intros Hr H. pose proof (reachable_Inv s Hr) as HI. destruct HI.
    assert (Hv : voted s n t = Some c).
    { destruct H as [H|[-> [H|H]]]; [apply inv_grant0; exact H|apply inv_req0; exact H|].
      apply inv_lmsg0 in H. tauto. }
    destruct (inv_voted_dur0 _ _ _ Hv) as [Hc0 Hd]. split; [exact Hd|].
    pose proof (chain_ends _ _ _ (inv_chain0 n)) as Hle. unfold le_tv, dur, vol in Hle. cbn in Hle.
    destruct Hd as [Hd|[Hd1 Hd2]].
    - left. destruct Hle as [Hle|[Hle _]]; lia.
    - destruct Hle as [Hle|[Hle1 Hle2]]; [left; lia|]. right. split; [lia|].
      destruct Hle2 as [E|E]; congruence.
  Qed.

  (* C06: within one incarnation the term never decreases *)
  Theorem term_monotone s l s' n :
    prule inc out l s = Some s' -> (forall k, l <> LCrash k) ->
    p_term (nodes s n) <= p_term (nodes s' n).
  Proof.
    intros H Hnc.
    destruct l as [k|k|k|k t|k c t|k t|k t|c k|c|k t|k|k|k]; cbn [prule] in H;
      try (exfalso; eapply Hnc; reflexivity);
      repeat match type of H with
             | match ?x with _ => _ end = _ => destruct x eqn:?; try discriminate
             | (if ?x then _ else _) = _ => destruct x eqn:?; try discriminate
             end;
      inversion H; subst; clear H; cbn;
      repeat match goal with
             | |- context [?a =? ?b] => destruct (N.eqb_spec a b); subst; cbn
             end; try lia.
    all: try (match goal with H : (_ <? _) = true |- _ => apply N.ltb_lt in H end; lia).
    all: try (match goal with H : (_ && _) = true |- _ => apply andb_prop in H; destruct H as [? H2]; apply N.ltb_lt in H2 end; lia).
  Qed.
End Safety.

(* a non-empty duplicate-free voter set with at least two voters has no single-node quorum *)
Lemma no_single_quorum_of_two inc out :
  NoDup inc -> (2 <= length inc)%nat -> no_single_quorum inc out.
Proof.
  intros Hnd Hlen Q x HQ. unfold quorum in HQ. apply has_quorum_spec in HQ.
  destruct HQ as [[E|Hc] _]; [subst inc; cbn in Hlen; lia|].
  (* at least majority >= 2 members of inc are in Q, so one differs from x *)
  assert (Hm : (2 <= majority (length inc))%nat).
  { unfold majority. assert (1 <= length inc / 2)%nat by (apply Nat.div_le_lower_bound; lia). lia. }
  assert (H2 : (2 <= count (fun v => mem v Q) inc)%nat) by lia.
  clear Hm Hlen Hc.
  assert (Hex : exists y, In y inc /\ mem y Q = true /\ y <> x).
  { unfold count in H2.
    pose proof (NoDup_filter (fun v => mem v Q) Hnd) as Hndf.
    destruct (filter (fun v => mem v Q) inc) as [|y1 [|y2 rest]] eqn:Ef; cbn in H2; try lia.
    assert (In1 : In y1 (filter (fun v => mem v Q) inc)) by (rewrite Ef; left; reflexivity).
    assert (In2 : In y2 (filter (fun v => mem v Q) inc)) by (rewrite Ef; right; left; reflexivity).
    apply filter_In in In1, In2.
    inversion Hndf as [|? ? Hn1 _]; subst.
    destruct (N.eq_dec y1 x) as [->|Hne].
    - exists y2. split; [tauto|]. split; [tauto|]. intros ->. apply Hn1. left. reflexivity.
    - exists y1. tauto. }
  destruct Hex as (y & _ & Hm' & Hne). exists y. split; [apply mem_In; exact Hm'|exact Hne].
Qed.

(* Without that hypothesis, and without durability of the leader's own vote, the
   role-level statement is FALSE of P (and of the implementation, finding F1): a
   single voter becomes leader inside its campaign before anything is durable,
   crashes, and after the restart grants its vote for the same term to a learner
   that campaigns explicitly. *)
Definition single_voter_witness : list label :=
  [LCampaign 1; LBecomeLeader 1; LCrash 1; LRestart 1;
   LCampaign 2; LImage 2; LFsync 2; LReleaseReq 2 1;
   LGrant 1 2 1; LImage 1; LFsync 1; LReleaseGrant 1 1;
   LRecvGrant 2 1; LBecomeLeader 2].

Lemma election_safety_single_voter_refuted :
  exists s, prun [1] [] single_voter_witness pinit = Some s /\ leaders s 1 = [2; 1].
Proof. eexists. split; vm_compute; reflexivity. Qed.
