(* Stage L3 of the log-layer proofs: leader completeness (C03), the commit rule
   (C04) and state-machine safety (C01) for the abstract protocol P/Log.v. *)
From RV Require Import Base.Prelude M.Quorum M.QuorumProofs P.Election P.ElectionProofs P.Log P.LogProofs.

Local Open Scope N_scope.

(* ------------------------------------------------------------------ *)
(** * Election layer: durable terms, votes *)

(* q's vote for c in term t exists in some form: volatile, handed out, or durable *)
Definition Vote (e : pst) (q c t : N) : Prop :=
  In (t, c) (p_imgs (nodes e q) ++ [vol (nodes e q)]) \/ voted e q t = Some c.

Lemma chain_in_le a l y x : chain a (l ++ [y]) -> In x (l ++ [y]) -> fst x <= fst y.
Proof.
  revert a. induction l as [|b r IH]; intros a Hc Hin; cbn in *.
  - destruct Hin as [<-|[]]. lia.
  - destruct Hc as [_ Hc]. destruct Hin as [<-|Hin]; [|eapply IH; eassumption].
    pose proof (chain_ends _ _ _ Hc) as H. unfold le_tv in H. lia.
Qed.

Section ElectionFacts2.
  Variables (inc out : list N).
  Notation prule := (prule inc out).
  Notation Inv := (Inv inc out).

  Lemma dterm_le_term e n : Inv e -> p_dterm (nodes e n) <= p_term (nodes e n).
  Proof.
    intros HI. pose proof (chain_ends _ _ _ (inv_chain _ _ _ HI n)) as H.
    unfold le_tv, dur, vol in H. cbn in H. lia.
  Qed.

  Lemma voted_le_dterm e q t c : Inv e -> voted e q t = Some c -> t <= p_dterm (nodes e q).
  Proof. intros HI Hv. destruct (inv_voted_dur _ _ _ HI _ _ _ Hv) as [_ H]. lia. Qed.

  Lemma Vote_term_le e q c t : Inv e -> Vote e q c t -> t <= p_term (nodes e q).
  Proof.
    intros HI [H|H].
    - apply (chain_in_le _ _ _ _ (inv_chain _ _ _ HI q)) in H. exact H.
    - pose proof (voted_le_dterm _ _ _ _ HI H). pose proof (dterm_le_term e q HI). lia.
  Qed.

  Lemma Vote_other e q c t : Inv e -> Vote e q c t -> c <> 0 -> q <> c -> voted e c t = Some c.
  Proof.
    intros HI [H|H] Hc Hne.
    - eapply (inv_pending _ _ _ HI); eauto.
    - eapply (inv_other _ _ _ HI); eauto.
  Qed.

  Lemma Vote_set_node e k p' q c t :
    Vote (set_node e k p') q c t <->
    (if q =? k then In (t, c) (p_imgs p' ++ [vol p']) \/ voted e k t = Some c else Vote e q c t).
  Proof.
    unfold Vote. cbn. destruct (N.eqb_spec q k) as [->|Hne]; reflexivity.
  Qed.

  Lemma dterm_mono e l e' n : Inv e -> prule l e = Some e' -> p_dterm (nodes e n) <= p_dterm (nodes e' n).
  Proof.
    intros HI H.
    destruct l as [k|k|k|k t|k c t|k t|k t|c k|c|k t|k|k|k]; cbn [Election.prule] in H.
    3:{ destruct (p_imgs (nodes e k)) as [|[t c] rest] eqn:Ei; [discriminate|].
        destruct (p_up (nodes e k)); [|discriminate]. inversion H; subst; clear H.
        assert (En : forall x, nodes (if c =? 0 then set_node e k (mkPN true (p_term (nodes e k)) (p_vote (nodes e k)) (p_role (nodes e k)) (p_granted (nodes e k)) t c rest)
                      else set_voted (set_node e k (mkPN true (p_term (nodes e k)) (p_vote (nodes e k)) (p_role (nodes e k)) (p_granted (nodes e k)) t c rest)) k t c) x
                 = nodes (set_node e k (mkPN true (p_term (nodes e k)) (p_vote (nodes e k)) (p_role (nodes e k)) (p_granted (nodes e k)) t c rest)) x)
          by (intros; destruct (c =? 0); reflexivity).
        rewrite En. cbn. destruct (N.eqb_spec n k) as [->|Hne]; [|lia]. cbn.
        pose proof (inv_chain _ _ _ HI k) as Hc. rewrite Ei in Hc. cbn in Hc. destruct Hc as [Hc _].
        unfold le_tv, dur in Hc. cbn in Hc. lia. }
    all: repeat match type of H with
             | match ?x with _ => _ end = _ => destruct x eqn:?; try discriminate
             | (if ?x then _ else _) = _ => destruct x eqn:?; try discriminate
             end;
      inversion H; subst; clear H; cbn;
      repeat match goal with
             | |- context [?a =? ?b] => destruct (N.eqb_spec a b); subst; cbn
             end; lia.
  Qed.
  (* votes only come from grants and campaigns *)
  Lemma Vote_step e l e' q c t : Inv e -> prule l e = Some e' -> Vote e' q c t -> c <> 0 ->
    Vote e q c t \/ l = LGrant q c t \/ (l = LCampaign q /\ c = q /\ t = p_term (nodes e q) + 1).
  Proof.
    intros HI H HV Hc0.
    assert (Hl : forall x, In x (p_imgs (nodes e q)) -> In x (p_imgs (nodes e q) ++ [vol (nodes e q)]))
      by (intros; apply in_or_app; left; assumption).
    assert (Hr : In (vol (nodes e q)) (p_imgs (nodes e q) ++ [vol (nodes e q)]))
      by (apply in_or_app; right; left; reflexivity).
    destruct l as [k|k|k|k t0|k c0 t0|k t0|k t0|c0 k|c0|k t0|k|k|k]; cbn [Election.prule] in H.
    - (* campaign *)
      destruct (p_up (nodes e k) && negb (k =? 0)); [|discriminate]. inversion H; subst; clear H.
      apply Vote_set_node in HV. destruct (N.eqb_spec q k) as [->|Hne]; [|auto].
      cbn in HV. destruct HV as [HV|HV]; [|left; right; exact HV].
      apply in_app_iff in HV. destruct HV as [HV|[HV|[]]]; [left; left; auto|].
      unfold vol in HV. cbn in HV. inversion HV; subst. right. right. auto.
    - (* image *)
      destruct (p_up (nodes e k)); [|discriminate]. inversion H; subst; clear H.
      apply Vote_set_node in HV. destruct (N.eqb_spec q k) as [->|Hne]; [|auto].
      cbn in HV. left. destruct HV as [HV|HV]; [|right; exact HV]. left.
      apply in_app_iff in HV. destruct HV as [HV|[HV|[]]].
      + apply in_app_iff in HV. destruct HV as [HV|[HV|[]]]; [auto|]. unfold vol. rewrite <- HV. exact Hr.
      + unfold vol in HV. cbn in HV. rewrite <- HV. exact Hr.
    - (* fsync *)
      destruct (p_imgs (nodes e k)) as [|[t1 c1] rest] eqn:Ei; [discriminate|].
      destruct (p_up (nodes e k)); [|discriminate]. inversion H; subst; clear H.
      set (p' := mkPN true (p_term (nodes e k)) (p_vote (nodes e k)) (p_role (nodes e k))
                      (p_granted (nodes e k)) t1 c1 rest) in *.
      assert (HV' : (if q =? k then In (t, c) (p_imgs p' ++ [vol p']) \/ voted e k t = Some c else Vote e q c t)
                    \/ (q = k /\ t = t1 /\ c = c1)).
      { destruct HV as [HV|HV].
        - left. apply Vote_set_node. left. destruct (c1 =? 0); exact HV.
        - destruct (c1 =? 0) eqn:Ec1.
          + left. apply Vote_set_node. right. exact HV.
          + cbn in HV. destruct ((q =? k) && (t =? t1)) eqn:E.
            * apply andb_prop in E. destruct E as [E1 E2]. apply N.eqb_eq in E1, E2. inversion HV; subst. auto.
            * left. apply Vote_set_node. right. exact HV. }
      destruct HV' as [HV'|(-> & -> & ->)].
      + destruct (N.eqb_spec q k) as [->|Hne]; [|auto]. left.
        destruct HV' as [HV'|HV']; [|right; exact HV']. left. rewrite Ei. right. exact HV'.
      + left. left. rewrite Ei. left. reflexivity.
    - destruct (voted e k t0) as [c1|]; [|discriminate]. destruct (c1 =? k); [|discriminate].
      inversion H; subst; clear H. left. exact HV.
    - (* grant *)
      destruct (p_up (nodes e k) && negb (c0 =? 0) && in_net (VoteReq c0 t0) (net e)); [|discriminate].
      destruct (p_term (nodes e k) <? t0).
      + inversion H; subst; clear H.
        apply Vote_set_node in HV. destruct (N.eqb_spec q k) as [->|Hne]; [|auto].
        cbn in HV. destruct HV as [HV|HV]; [|left; right; exact HV].
        apply in_app_iff in HV. destruct HV as [HV|[HV|[]]]; [left; left; auto|].
        unfold vol in HV. cbn in HV. inversion HV; subst. auto.
      + destruct ((p_term (nodes e k) =? t0) && ((p_vote (nodes e k) =? 0) || (p_vote (nodes e k) =? c0)));
          [|discriminate].
        inversion H; subst; clear H.
        apply Vote_set_node in HV. destruct (N.eqb_spec q k) as [->|Hne]; [|auto].
        cbn in HV. destruct HV as [HV|HV]; [|left; right; exact HV].
        apply in_app_iff in HV. destruct HV as [HV|[HV|[]]]; [left; left; auto|].
        unfold vol in HV. cbn in HV. inversion HV; subst. auto.
    - destruct (voted e k t0) as [c1|]; [|discriminate]. destruct (c1 =? k); [discriminate|].
      inversion H; subst; clear H. left. exact HV.
    - destruct (voted e k t0) as [c1|]; [|discriminate].
      destruct ((c1 =? k) && existsb (N.eqb k) (leaders e t0)); [|discriminate].
      inversion H; subst; clear H. left. exact HV.
    - (* receive grant *)
      destruct (p_role (nodes e c0)); try discriminate.
      destruct (p_up (nodes e c0) && in_net (Grant k c0 (p_term (nodes e c0))) (net e)); [|discriminate].
      inversion H; subst; clear H.
      apply Vote_set_node in HV. destruct (N.eqb_spec q c0) as [->|Hne]; [|auto]. left. exact HV.
    - (* become leader *)
      destruct (p_role (nodes e c0)); try discriminate.
      destruct (p_up (nodes e c0) && quorum inc out (p_granted (nodes e c0))); [|discriminate].
      inversion H; subst; clear H.
      change (Vote (set_node e c0 (mkPN true (p_term (nodes e c0)) (p_vote (nodes e c0)) PL (p_granted (nodes e c0))
                                        (p_dterm (nodes e c0)) (p_dvote (nodes e c0)) (p_imgs (nodes e c0)))) q c t) in HV.
      apply Vote_set_node in HV. destruct (N.eqb_spec q c0) as [->|Hne]; [|auto]. left. exact HV.
    - (* update term *)
      destruct (p_up (nodes e k) && (p_term (nodes e k) <? t0)); [|discriminate]. inversion H; subst; clear H.
      apply Vote_set_node in HV. destruct (N.eqb_spec q k) as [->|Hne]; [|auto].
      cbn in HV. destruct HV as [HV|HV]; [|left; right; exact HV].
      apply in_app_iff in HV. destruct HV as [HV|[HV|[]]]; [left; left; auto|].
      unfold vol in HV. cbn in HV. inversion HV; subst. congruence.
    - (* step down *)
      destruct (p_up (nodes e k)); [|discriminate]. inversion H; subst; clear H.
      apply Vote_set_node in HV. destruct (N.eqb_spec q k) as [->|Hne]; [|auto]. left. exact HV.
    - (* crash *)
      destruct (p_up (nodes e k)); [|discriminate]. inversion H; subst; clear H.
      apply Vote_set_node in HV. destruct (N.eqb_spec q k) as [->|Hne]; [|auto].
      cbn in HV. left. right. destruct HV as [[HV|[]]|HV]; [|exact HV].
      unfold vol in HV. cbn in HV. inversion HV; subst. apply (inv_dur_voted _ _ _ HI). exact Hc0.
    - (* restart *)
      destruct (p_up (nodes e k)); [discriminate|]. inversion H; subst; clear H.
      apply Vote_set_node in HV. destruct (N.eqb_spec q k) as [->|Hne]; [|auto].
      cbn in HV. left. destruct HV as [[HV|[]]|HV]; [|right; exact HV].
      left. unfold vol in HV. cbn in HV. rewrite <- HV. exact Hr.
  Qed.
End ElectionFacts2.

(* ------------------------------------------------------------------ *)
(** * Sorted logs, agreement with a leader log, the election restriction *)

Definition terms_le (L : list ent) (b : N) : Prop := forall e, In e L -> eterm e <= b.
Definition terms_lt (L : list ent) (b : N) : Prop := forall e, In e L -> eterm e < b.

Definition sorted (L : list ent) : Prop :=
  forall i j, (1 <= i)%nat -> (i <= j)%nat -> (j <= length L)%nat -> term_at L i <= term_at L j.

Lemma term_at_In L j : (1 <= j <= length L)%nat -> exists e, In e L /\ eterm e = term_at L j.
Proof.
  intros Hj. destruct j as [|j]; [lia|]. cbn. destruct (nth_error L j) as [e|] eqn:E.
  - exists e. split; [eapply nth_error_In; exact E|reflexivity].
  - apply nth_error_None in E. lia.
Qed.

Lemma last_term_at L : last_term L = term_at L (length L).
Proof.
  unfold last_term. induction L as [|x L IH]; [reflexivity|].
  destruct L as [|y L]; [reflexivity|].
  change (last (x :: y :: L) (0, 0)) with (last (y :: L) (0, 0)). rewrite IH. reflexivity.
Qed.

Lemma terms_le_firstn L m b : terms_le L b -> terms_le (firstn m L) b.
Proof. intros H e He. apply H. rewrite <- (firstn_skipn m L). apply in_or_app. left. exact He. Qed.

Lemma terms_le_mono L a b : a <= b -> terms_le L a -> terms_le L b.
Proof. intros Hab H e He. specialize (H e He). lia. Qed.

Lemma terms_le_snoc L e b : terms_le L b -> eterm e <= b -> terms_le (L ++ [e]) b.
Proof. intros H He x Hx. apply in_app_iff in Hx. destruct Hx as [Hx|[<-|[]]]; auto. Qed.

Lemma sorted_nil : sorted [].
Proof. intros i j Hi Hij Hj. cbn in Hj. lia. Qed.

Lemma sorted_firstn L m : sorted L -> sorted (firstn m L).
Proof.
  intros H i j Hi Hij Hj. rewrite firstn_length in Hj. rewrite !term_at_firstn by lia. apply H; lia.
Qed.

Lemma sorted_snoc L e : sorted L -> terms_le L (eterm e) -> sorted (L ++ [e]).
Proof.
  intros HS HL i j Hi Hij Hj. rewrite app_length in Hj. cbn in Hj.
  destruct (Nat.eq_dec j (S (length L))) as [->|Hne].
  - rewrite term_at_app_last. destruct (Nat.eq_dec i (S (length L))) as [->|Hni].
    + rewrite term_at_app_last. lia.
    + rewrite term_at_app_l by lia. destruct (term_at_In L i) as (x & Hx & <-); [lia|]. apply HL. exact Hx.
  - rewrite !term_at_app_l by lia. apply HS; lia.
Qed.

Lemma good_sorted lg L : (forall t, sorted (lg t)) -> good lg L -> sorted L.
Proof.
  intros HS HG i j Hi Hij Hj. destruct (HG j) as [Hl He]; [lia|].
  rewrite <- (term_at_firstn L j i), <- (term_at_firstn L j j) by lia. rewrite He.
  rewrite !term_at_firstn by lia. apply HS; lia.
Qed.

Definition own (lg : N -> list ent) (T : N) (k : nat) : Prop :=
  (1 <= k <= length (lg T))%nat /\ term_at (lg T) k = T.

Definition Agree (lg : N -> list ent) (T : N) (k : nat) (L : list ent) : Prop :=
  (k <= length L)%nat /\ firstn k L = firstn k (lg T).

Lemma ent_eq_dec (a b : ent) : {a = b} + {a <> b}.
Proof. decide equality; apply N.eq_dec. Qed.

Lemma Agree_dec lg T k L : {Agree lg T k L} + {~ Agree lg T k L}.
Proof.
  unfold Agree. destruct (le_dec k (length L)) as [H1|H1]; [|right; tauto].
  destruct (list_eq_dec ent_eq_dec (firstn k L) (firstn k (lg T))) as [H2|H2]; [left; auto|right; tauto].
Qed.

Lemma Agree_self lg T k : (k <= length (lg T))%nat -> Agree lg T k (lg T).
Proof. intros H. split; [exact H|reflexivity]. Qed.

Lemma Agree_le lg T k j L : (j <= k)%nat -> Agree lg T k L -> Agree lg T j L.
Proof. intros Hjk [H1 H2]. split; [lia|]. eapply firstn_eq_le; eassumption. Qed.

Lemma Agree_term_at lg T k L : own lg T k -> Agree lg T k L -> term_at L k = T.
Proof. intros [_ Ho] [_ Ha]. rewrite <- Ho. apply term_at_firstn_eq. exact Ha. Qed.

Lemma Agree_app lg T k L X : Agree lg T k L -> Agree lg T k (L ++ X).
Proof. intros [H1 H2]. split; [rewrite app_length; lia|]. rewrite firstn_app_le by exact H1. exact H2. Qed.

Lemma Agree_prefix lg T k L' : (exists suf, L' = firstn k (lg T) ++ suf) -> (k <= length (lg T))%nat -> Agree lg T k L'.
Proof.
  intros [suf ->] Hk. assert (Hl : length (firstn k (lg T)) = k) by (rewrite firstn_length; lia).
  split; [rewrite app_length; lia|]. rewrite firstn_app_le by lia. rewrite firstn_firstn_le by lia. reflexivity.
Qed.

(* agreement survives the growth of the leader logs *)
Lemma own_grows lg lg' T k : grows lg lg' -> own lg T k -> own lg' T k.
Proof.
  intros Hg [H1 H2]. destruct (Hg T) as [suf Hs]. unfold own. rewrite Hs.
  split; [rewrite app_length; lia|]. rewrite term_at_app_l by lia. exact H2.
Qed.

Lemma own_shrinks lg lg' T k : grows lg lg' -> own lg' T k -> (k <= length (lg T))%nat -> own lg T k.
Proof.
  intros Hg [H1 H2] Hk. destruct (Hg T) as [suf Hs]. rewrite Hs in H2.
  rewrite term_at_app_l in H2 by lia. split; [lia|exact H2].
Qed.

Lemma Agree_grows lg lg' T k L : grows lg lg' -> (k <= length (lg T))%nat -> Agree lg T k L <-> Agree lg' T k L.
Proof.
  intros Hg Hk. destruct (Hg T) as [suf Hs]. unfold Agree. rewrite Hs. rewrite firstn_app_le by exact Hk. reflexivity.
Qed.

(* an adopted prefix of an agreeing leader log that is not a truncation of an agreeing log agrees *)
Lemma Agree_adopt lg T k old src m :
  Agree lg T k old -> Agree lg T k src -> is_prefix (firstn m src) old = false -> (m <= length src)%nat ->
  Agree lg T k (firstn m src).
Proof.
  intros [Ho1 Ho2] [Hs1 Hs2] Hnp Hm. apply is_prefix_false in Hnp.
  destruct (le_lt_dec k m) as [Hkm|Hkm].
  - split; [rewrite firstn_length; lia|]. rewrite firstn_firstn_le by exact Hkm. exact Hs2.
  - exfalso. apply Hnp. assert (E : firstn m src = firstn m old).
    { apply firstn_eq_le with (k := k); [lia|congruence]. }
    rewrite E. apply firstn_prefix.
Qed.

(* The election restriction: a candidate log at least as up-to-date as a log that
   agrees with the leader log of T up to an own-term index k agrees too, unless a
   leader of an intermediate term does not (escape B). *)
Lemma up_to_date_agree lg T k t C V (B : Prop) :
  (forall u, sorted (lg u)) -> good lg C -> good lg V -> terms_lt C t ->
  own lg T k -> Agree lg T k V -> up_to_date C V = true ->
  (forall u, T < u -> u < t -> lg u <> [] -> Agree lg T k (lg u) \/ B) ->
  Agree lg T k C \/ B.
Proof.
  intros HS HC HV HCt Ho HaV Hu HN.
  pose proof (good_sorted lg V HS HV) as HsV.
  pose proof (Agree_term_at lg T k V Ho HaV) as HVk.
  destruct Ho as [[Hk1 Hk2] HoT]. destruct HaV as [HV1 HV2].
  assert (HlV : T <= last_term V).
  { rewrite last_term_at, <- HVk. apply HsV; lia. }
  unfold up_to_date in Hu. rewrite !last_term_at in *.
  assert (Hcase : (term_at V (length V) < term_at C (length C)) \/
                  (term_at C (length C) = term_at V (length V) /\ (length V <= length C)%nat)).
  { apply orb_prop in Hu. destruct Hu as [Hu|Hu]; [left; apply N.ltb_lt; exact Hu|right].
    apply andb_prop in Hu. destruct Hu as [H1 H2]. apply N.eqb_eq in H1. apply Nat.leb_le in H2. auto. }
  assert (HCne : (1 <= length C)%nat).
  { destruct Hcase as [Hc|[_ Hc]]; [|lia]. destruct C; [cbn in Hc; lia|cbn; lia]. }
  set (u := term_at C (length C)) in *.
  assert (HuT : T <= u) by (destruct Hcase as [Hc|[Hc _]]; lia).
  assert (Hut : u < t).
  { destruct (term_at_In C (length C)) as (e & He & Ee); [lia|]. fold u in Ee. rewrite <- Ee. apply HCt. exact He. }
  destruct (HC (length C)) as [HCl HCe]; [lia|]. fold u in HCl, HCe. rewrite firstn_all in HCe.
  destruct (N.eq_dec u T) as [EuT|NuT].
  - left. destruct Hcase as [Hc|[_ Hc]]; [lia|]. rewrite EuT in *.
    split; [lia|]. rewrite HCe. apply firstn_firstn_le. lia.
  - assert (Hne : lg u <> []) by (destruct (lg u); [cbn in HCl; lia|discriminate]).
    destruct (HN u) as [[Hu1 Hu2]|HB]; [lia|exact Hut|exact Hne| |right; exact HB].
    left. destruct (le_lt_dec k (length C)) as [Hkm|Hkm].
    + split; [exact Hkm|]. rewrite HCe. rewrite firstn_firstn_le by exact Hkm. exact Hu2.
    + exfalso. assert (E1 : term_at (lg u) (length C) = u).
      { unfold u at 2. rewrite HCe at 2. rewrite term_at_firstn by lia. reflexivity. }
      assert (E2 : term_at (lg u) k = T) by (rewrite <- HoT; apply term_at_firstn_eq; exact Hu2).
      pose proof (HS u (length C) k) as Hs. rewrite E1, E2 in Hs. specialize (Hs HCne). lia.
Qed.

(* ------------------------------------------------------------------ *)
(** * Term bounds, sortedness, acknowledgement bounds *)

Lemma crash_inv inc out k e e' : prule inc out (LCrash k) e = Some e' ->
  p_up (nodes e k) = true /\
  e' = set_node e k (mkPN false (p_dterm (nodes e k)) (p_dvote (nodes e k)) PF []
                          (p_dterm (nodes e k)) (p_dvote (nodes e k)) []).
Proof.
  cbn [prule]. intros H. destruct (p_up (nodes e k)); [|discriminate]. inversion H; subst. auto.
Qed.

Lemma campaign_inv inc out k e e' : prule inc out (LCampaign k) e = Some e' ->
  p_up (nodes e k) = true /\ k <> 0 /\
  e' = set_node e k (mkPN true (p_term (nodes e k) + 1) k PC [k]
                          (p_dterm (nodes e k)) (p_dvote (nodes e k)) (p_imgs (nodes e k))).
Proof.
  cbn [prule]. intros H. destruct (p_up (nodes e k) && negb (k =? 0)) eqn:Hg; [|discriminate].
  apply andb_prop in Hg. destruct Hg as [H1 H2]. apply negb_true_iff, N.eqb_neq in H2.
  inversion H; subst. auto.
Qed.

Section EInv.
  Variables (inc out : list N).
  Hypothesis inc_nonempty : inc <> [].
  Hypothesis Hmulti : no_single_quorum inc out.
  Notation lrule := (lrule inc out).
  Notation lreachable := (lreachable inc out).

  Record EInv (s : lst) : Prop := {
    e_log : forall n, terms_le (l_log (ln s n)) (p_term (nodes (el s) n));
    e_dlog : forall n, terms_le (l_dlog (ln s n)) (p_dterm (nodes (el s) n));
    e_llog : forall t, terms_le (llog s t) t;
    e_clog : forall c t, terms_lt (clog s c t) t;
    e_sorted : forall t, sorted (llog s t);
    e_acked : forall q t, (acked s q t <= length (llog s t))%nat;
    e_acks : forall q t i, In (t, i) (l_acks (ln s q)) -> (i <= length (llog s t))%nat
  }.

  Lemma EInv_init : EInv linit.
  Proof.
    constructor; cbn; intros; try (intros e []); try apply sorted_nil; try lia; contradiction.
  Qed.

  (* node-local update that keeps the ghosts *)
  Lemma EInv_set_ln s n x' : EInv s ->
    terms_le (l_log x') (p_term (nodes (el s) n)) ->
    terms_le (l_dlog x') (p_dterm (nodes (el s) n)) ->
    (forall t i, In (t, i) (l_acks x') -> (i <= length (llog s t))%nat) ->
    EInv (set_ln s n x').
  Proof.
    intros [E1 E2 E3 E4 E5 E6 E7] H1 H2 H3. constructor; cbn [set_ln ln el llog clog acked]; intros; auto.
    - destruct (N.eqb_spec n0 n) as [->|Hne]; [exact H1|apply E1].
    - destruct (N.eqb_spec n0 n) as [->|Hne]; [exact H2|apply E2].
    - destruct (N.eqb_spec q n) as [->|Hne]; [apply H3; exact H|eapply E7; exact H].
  Qed.

  Lemma EInv_set_el s e' : EInv s ->
    (forall n, p_term (nodes (el s) n) <= p_term (nodes e' n)) ->
    (forall n, p_dterm (nodes (el s) n) <= p_dterm (nodes e' n)) ->
    EInv (set_el s e').
  Proof.
    intros [E1 E2 E3 E4 E5 E6 E7] H1 H2. constructor; cbn [set_el ln el llog clog acked]; intros; auto.
    - eapply terms_le_mono; [apply H1|apply E1].
    - eapply terms_le_mono; [apply H2|apply E2].
    - eapply E7; exact H.
  Qed.

  Lemma EInv_set_clog s c t L : EInv s -> terms_lt L t -> EInv (set_clog s c t L).
  Proof.
    intros [E1 E2 E3 E4 E5 E6 E7] H. constructor; auto.
    intros c0 t0. cbn. destruct ((c0 =? c) && (t0 =? t)) eqn:E; [|apply E4].
    apply andb_prop in E. destruct E as [_ E]. apply N.eqb_eq in E. subst. exact H.
  Qed.

  Lemma EInv_set_acked s q t i : EInv s -> (i <= length (llog s t))%nat -> EInv (set_acked s q t i).
  Proof.
    intros [E1 E2 E3 E4 E5 E6 E7] H. constructor; auto.
    intros q0 t0. cbn. destruct ((q0 =? q) && (t0 =? t)) eqn:E; [|apply E6].
    apply andb_prop in E. destruct E as [_ E]. apply N.eqb_eq in E. subst. exact H.
  Qed.

  Lemma EInv_add_cpt s t k : EInv s -> EInv (add_cpt s t k).
  Proof. intros [E1 E2 E3 E4 E5 E6 E7]. constructor; auto. Qed.

  (* a leader appends an entry of its term *)
  Lemma EInv_append s c x :
    let t := p_term (nodes (el s) c) in
    let L := l_log (ln s c) in
    EInv s -> good (llog s) L -> (exists suf, L ++ [(t, x)] = llog s t ++ suf) ->
    EInv (set_llog (set_ln s c (with_log (ln s c) (L ++ [(t, x)]))) t (L ++ [(t, x)])).
  Proof.
    intros t L [E1 E2 E3 E4 E5 E6 E7] HgL [suf Hsuf].
    assert (HL : terms_le L t) by apply E1.
    assert (Hlen : (length (llog s t) <= length (L ++ [(t, x)]))%nat).
    { rewrite Hsuf, app_length. lia. }
    constructor; cbn [set_llog set_ln ln el llog clog acked]; intros.
    - destruct (N.eqb_spec n c) as [->|Hne]; [|apply E1]. cbn. apply terms_le_snoc; [exact HL|cbn; lia].
    - destruct (N.eqb_spec n c) as [->|Hne]; [|apply E2]. cbn. apply E2.
    - destruct (N.eqb_spec t0 t) as [->|Hne]; [|apply E3]. apply terms_le_snoc; [exact HL|cbn; lia].
    - apply E4.
    - destruct (N.eqb_spec t0 t) as [->|Hne]; [|apply E5]. apply sorted_snoc; [|exact HL].
      apply good_sorted with (lg := llog s); [exact E5|exact HgL].
    - destruct (N.eqb_spec t0 t) as [->|Hne]; [|apply E6]. pose proof (E6 q t). lia.
    - assert (Hin : In (t0, i) (l_acks (ln s q))).
      { destruct (N.eqb_spec q c) as [->|Hne]; [cbn in H|]; exact H. }
      destruct (N.eqb_spec t0 t) as [->|Hne]; [|eapply E7; exact Hin]. pose proof (E7 q t i Hin). lia.
  Qed.
  Lemma EInv_set_el_ln s e' n x' : EInv s ->
    (forall m, m <> n -> p_term (nodes (el s) m) <= p_term (nodes e' m)) ->
    (forall m, p_dterm (nodes (el s) m) <= p_dterm (nodes e' m)) ->
    terms_le (l_log x') (p_term (nodes e' n)) ->
    terms_le (l_dlog x') (p_dterm (nodes e' n)) ->
    (forall t i, In (t, i) (l_acks x') -> (i <= length (llog s t))%nat) ->
    EInv (set_ln (set_el s e') n x').
  Proof.
    intros [E1 E2 E3 E4 E5 E6 E7] Ht Hd H1 H2 H3.
    constructor; cbn [set_ln set_el ln el llog clog acked]; intros; auto.
    - destruct (N.eqb_spec n0 n) as [->|Hne]; [exact H1|].
      eapply terms_le_mono; [apply Ht; exact Hne|apply E1].
    - destruct (N.eqb_spec n0 n) as [->|Hne]; [exact H2|].
      eapply terms_le_mono; [apply Hd|apply E2].
    - destruct (N.eqb_spec q n) as [->|Hne]; [apply H3; exact H|eapply E7; exact H].
  Qed.

  Theorem EInv_step s l s' : lreachable s -> LInv s -> EInv s -> lrule l s = Some s' -> EInv s'.
  Proof.
    intros Hr HL HE H. pose proof (lreachable_el _ _ _ Hr) as Hre.
    pose proof (reachable_Inv inc out _ Hre) as HIe.
    destruct l as [l0|c x|n m|q i|q t i|c k|n k|n|n].
    - destruct (lel_inv _ _ _ _ _ H) as (e' & He & Hel & Hs).
      assert (Hd : forall m, p_dterm (nodes (el s) m) <= p_dterm (nodes e' m))
        by (intros m; eapply dterm_mono; eassumption).
      assert (Ht : (forall k, l0 <> LCrash k) -> forall m, p_term (nodes (el s) m) <= p_term (nodes e' m))
        by (intros Hnc m; eapply term_monotone; eassumption).
      destruct l0 as [n|n|n|n t|n c t|n t|n t|c n|c|n t|n|n|n];
        try (subst s'; apply EInv_set_el; [exact HE|apply Ht; discriminate|exact Hd]).
      + (* campaign *)
        subst s'. apply EInv_set_clog; [apply EInv_set_el; [exact HE|apply Ht; discriminate|exact Hd]|].
        destruct (campaign_inv _ _ _ _ _ He) as (_ & _ & ->). cbn. rewrite N.eqb_refl. cbn.
        intros e Hin. pose proof (e_log s HE n e Hin). lia.
      + destruct Hs as [-> _]. apply EInv_set_el; [exact HE|apply Ht; discriminate|exact Hd].
      + (* become leader *)
        destruct Hs as [Hcl ->].
        assert (HE1 : EInv (set_el s e')) by (apply EInv_set_el; [exact HE|apply Ht; discriminate|exact Hd]).
        apply (EInv_append (set_el s e') c 0 HE1).
        * apply (li_Dlog s HL).
        * cbn [set_el el ln llog].
          destruct (become_leader_inv _ _ _ _ _ He) as (_ & _ & _ & Ee).
          assert (Et : p_term (nodes e' c) = p_term (nodes (el s) c))
            by (rewrite Ee; cbn; rewrite N.eqb_refl; reflexivity).
          rewrite Et, (new_leader_llog_nil inc out inc_nonempty Hmulti s c e' Hr HL He). eexists. reflexivity.
      + (* crash *)
        subst s'. destruct (crash_inv _ _ _ _ _ He) as (_ & Ee).
        apply EInv_set_el_ln; [exact HE| |exact Hd| | |cbn; contradiction].
        * intros m Hne. rewrite Ee. cbn. apply N.eqb_neq in Hne. rewrite Hne. lia.
        * rewrite Ee. cbn. rewrite N.eqb_refl. cbn. apply (e_dlog s HE).
        * rewrite Ee. cbn. rewrite N.eqb_refl. cbn. apply (e_dlog s HE).
    - (* propose *)
      apply lpropose_inv in H. destruct H as (Hl & ->).
      apply (EInv_append s c x HE); [apply (li_Dlog s HL)|].
      rewrite (li_B s HL c Hl). eexists. reflexivity.
    - (* adopt *)
      apply ladopt_inv in H. cbv zeta in H. destruct H as (_ & _ & _ & _ & _ & _ & ->).
      apply EInv_set_ln; cbn [with_log l_log l_dlog l_acks]; [exact HE| |apply (e_dlog s HE)|apply (e_acks s HE)].
      apply terms_le_firstn. apply (e_llog s HE).
    - (* make ack *)
      apply lmkack_inv in H. cbv zeta in H. destruct H as (_ & _ & Hi & _ & ->).
      apply EInv_set_ln; cbn [l_log l_dlog l_acks]; [exact HE|apply (e_log s HE)|apply (e_dlog s HE)|].
      intros t0 i0 [Hin|Hin]; [inversion Hin; subst; exact Hi|eapply (e_acks s HE); exact Hin].
    - (* release ack *)
      apply lrelack_inv in H. destruct H as (_ & _ & Hi & ->).
      destruct (acked s q t <? i)%nat; [apply EInv_set_acked; assumption|exact HE].
    - (* leader commit *)
      apply lcommitl_inv in H. cbv zeta in H. destruct H as (Hl & Hk & _ & _ & _ & ->).
      apply EInv_add_cpt.
      assert (HE1 : EInv (set_ln s c (mkLN (l_log (ln s c)) (l_dlog (ln s c)) (l_imgs (ln s c)) k (l_acks (ln s c))))).
      { apply EInv_set_ln; cbn [l_log l_dlog l_acks];
          [exact HE|apply (e_log s HE)|apply (e_dlog s HE)|apply (e_acks s HE)]. }
      cbv zeta. destruct (is_prefix _ _ && _)%bool; [|exact HE1].
      apply EInv_set_acked; [exact HE1|]. cbn [set_ln llog]. rewrite <- (li_B s HL c Hl). exact Hk.
    - (* follower commit *)
      apply lcommitf_inv in H. destruct H as (_ & _ & _ & _ & ->).
      apply EInv_set_ln; cbn [l_log l_dlog l_acks];
        [exact HE|apply (e_log s HE)|apply (e_dlog s HE)|apply (e_acks s HE)].
    - (* log image *)
      apply llogimage_inv in H. destruct H as (_ & ->).
      apply EInv_set_ln; cbn [l_log l_dlog l_acks];
        [exact HE|apply (e_log s HE)|apply (e_dlog s HE)|apply (e_acks s HE)].
    - (* log fsync *)
      apply llogfsync_inv in H. destruct H as (img & rest & _ & _ & Hg & ->).
      apply EInv_set_ln; cbn [l_log l_dlog l_acks];
        [exact HE|apply (e_log s HE)|exact Hg|apply (e_acks s HE)].
  Qed.

  Theorem lreachable_EInv s : lreachable s -> EInv s.
  Proof.
    induction 1 as [|s l s' Hr IH Hstep]; [apply EInv_init|].
    eapply EInv_step; try eassumption. apply (lreachable_LInv inc out inc_nonempty Hmulti); exact Hr.
  Qed.
End EInv.

(* ------------------------------------------------------------------ *)
(** * Promises, blocking quorums, persistence sequences *)

(* once an element satisfies P, every later one does (or the escape B holds) *)
Fixpoint seq_ok (P : list ent -> Prop) (B : Prop) (l : list (list ent)) : Prop :=
  match l with
  | [] => True
  | X :: r => (P X -> forall Y, In Y r -> P Y \/ B) /\ seq_ok P B r
  end.

Lemma seq_ok_replace_last P B l0 old new :
  seq_ok P B (l0 ++ [old]) -> (P old -> P new \/ B) -> seq_ok P B (l0 ++ [new]).
Proof.
  intros H Hn. induction l0 as [|X r IH]; cbn in *.
  - split; [intros _ Y []|exact I].
  - destruct H as [H1 H2]. split; [|apply IH; exact H2].
    intros HX Y HY. apply in_app_iff in HY. destruct HY as [HY|[<-|[]]].
    + apply H1; [exact HX|]. apply in_or_app. left. exact HY.
    + destruct (H1 HX old) as [Ho|HB]; [apply in_or_app; right; left; reflexivity| |right; exact HB].
      apply Hn. exact Ho.
Qed.

Lemma seq_ok_dup_last P B l0 x : seq_ok P B (l0 ++ [x]) -> seq_ok P B ((l0 ++ [x]) ++ [x]).
Proof.
  intros H. induction l0 as [|X r IH]; cbn in *.
  - split; [intros Hx Y [<-|[]]; left; exact Hx|]. split; [intros _ Y []|exact I].
  - destruct H as [H1 H2]. split; [|apply IH; exact H2].
    intros HX Y HY. apply H1; [exact HX|]. apply in_app_iff in HY.
    destruct HY as [HY|[<-|[]]]; [exact HY|]. apply in_or_app. right. left. reflexivity.
Qed.

Lemma seq_ok_ext (P P' : list ent -> Prop) (B B' : Prop) l :
  (forall X, P X <-> P' X) -> (B -> B') -> seq_ok P B l -> seq_ok P' B' l.
Proof.
  intros HP HB. induction l as [|X r IH]; cbn; [auto|]. intros [H1 H2]. split; [|apply IH; exact H2].
  intros HX Y HY. apply HP in HX. destruct (H1 HX Y HY) as [H|H]; [left; apply HP; exact H|right; auto].
Qed.

Lemma seq_ok_head_last P B X l y : seq_ok P B (X :: l ++ [y]) -> P X -> P y \/ B.
Proof. cbn. intros [H _] HX. apply H; [exact HX|]. apply in_or_app. right. left. reflexivity. Qed.

Definition Seq (s : lst) (q : N) : list (list ent) :=
  (l_dlog (ln s q) :: l_imgs (ln s q)) ++ [l_log (ln s q)].

Definition promised (s : lst) (q T : N) (k : nat) : Prop :=
  (k <= acked s q T)%nat \/ exists i, (k <= i)%nat /\ In (T, i) (l_acks (ln s q)).

Lemma promised_dec s q T k : {promised s q T k} + {~ promised s q T k}.
Proof.
  unfold promised. destruct (le_dec k (acked s q T)) as [H|H]; [left; auto|].
  assert (D : {exists i, (k <= i)%nat /\ In (T, i) (l_acks (ln s q))} + {~ exists i, (k <= i)%nat /\ In (T, i) (l_acks (ln s q))}).
  { induction (l_acks (ln s q)) as [|[t0 i0] r IH].
    - right. intros (i & _ & []).
    - destruct IH as [IH|IH]; [left; destruct IH as (i & Hi & Hin); exists i; split; [exact Hi|right; exact Hin]|].
      destruct (N.eq_dec t0 T) as [->|Hne].
      + destruct (le_dec k i0) as [Hk|Hk]; [left; exists i0; split; [exact Hk|left; reflexivity]|].
        right. intros (i & Hi & [Hin|Hin]); [inversion Hin; subst; lia|apply IH; eauto].
      + right. intros (i & Hi & [Hin|Hin]); [inversion Hin; subst; congruence|apply IH; eauto]. }
  destruct D as [D|D]; [left; auto|right; tauto].
Qed.

Section Block.
  Variables (inc out : list N).
  Hypothesis inc_nonempty : inc <> [].
  Hypothesis Hmulti : no_single_quorum inc out.
  Notation lrule := (lrule inc out).
  Notation lreachable := (lreachable inc out).

  (* a quorum that has durably moved beyond T without promising (T, k): (T, k) can never be committed *)
  Definition Block (s : lst) (T : N) (k : nat) : Prop :=
    exists Q, quorum inc out Q = true /\
      forall z, In z Q -> T < p_dterm (nodes (el s) z) /\ ~ promised s z T k.

  (* new promises are made in the current term only *)
  Lemma promised_step s l s' z T k : lrule l s = Some s' -> promised s' z T k ->
    promised s z T k \/ T = p_term (nodes (el s) z).
  Proof.
    intros H HP. destruct l as [l0|c x|n m|q i|q t i|c k0|n k0|n|n].
    - destruct (lel_inv _ _ _ _ _ H) as (e' & He & Hel & Hs).
      destruct l0 as [n|n|n|n t|n c t|n t|n t|c n|c|n t|n|n|n]; try (subst s'; left; exact HP).
      + destruct Hs as [-> _]. left. exact HP.
      + destruct Hs as [_ ->]. left. destruct HP as [HP|(i & Hi & HP)]; [left; exact HP|right].
        exists i. split; [exact Hi|]. cbn in HP. destruct (N.eqb_spec z c) as [->|Hne]; exact HP.
      + subst s'. left. destruct HP as [HP|(i & Hi & HP)]; [left; exact HP|right].
        exists i. split; [exact Hi|]. cbn in HP. destruct (N.eqb_spec z n) as [->|Hne]; [destruct HP|exact HP].
    - apply lpropose_inv in H. destruct H as (_ & ->). left.
      destruct HP as [HP|(i & Hi & HP)]; [left; exact HP|right].
      exists i. split; [exact Hi|]. cbn in HP. destruct (N.eqb_spec z c) as [->|Hne]; exact HP.
    - apply ladopt_inv in H. cbv zeta in H. destruct H as (_ & _ & _ & _ & _ & _ & ->). left.
      destruct HP as [HP|(i & Hi & HP)]; [left; exact HP|right].
      exists i. split; [exact Hi|]. cbn in HP. destruct (N.eqb_spec z n) as [->|Hne]; exact HP.
    - apply lmkack_inv in H. cbv zeta in H. destruct H as (_ & _ & _ & _ & ->).
      destruct HP as [HP|(i0 & Hi & HP)]; [left; left; exact HP|].
      cbn in HP. destruct (N.eqb_spec z q) as [->|Hne]; [|left; right; eauto].
      cbn in HP. destruct HP as [HP|HP]; [inversion HP; subst; right; reflexivity|left; right; eauto].
    - apply lrelack_inv in H. destruct H as (Hin & _ & _ & ->). left.
      destruct (acked s q t <? i)%nat; [|exact HP].
      destruct HP as [HP|HP]; [|right; exact HP]. cbn in HP.
      destruct ((z =? q) && (T =? t)) eqn:E; [|left; exact HP].
      apply andb_prop in E. destruct E as [E1 E2]. apply N.eqb_eq in E1, E2. subst. right. eauto.
    - apply lcommitl_inv in H. cbv zeta in H. destruct H as (_ & _ & _ & _ & _ & ->).
      assert (HP1 : promised (set_ln s c (mkLN (l_log (ln s c)) (l_dlog (ln s c)) (l_imgs (ln s c)) k0 (l_acks (ln s c)))) z T k
                    -> promised s z T k).
      { intros [HP1|(i & Hi & HP1)]; [left; exact HP1|right]. exists i. split; [exact Hi|].
        cbn in HP1. destruct (N.eqb_spec z c) as [->|Hne]; exact HP1. }
      destruct (is_prefix _ _ && _)%bool; [|left; apply HP1; exact HP].
      destruct HP as [HP|HP]; [|left; apply HP1; right; exact HP]. cbn in HP.
      destruct ((z =? c) && (T =? p_term (nodes (el s) c))) eqn:E; [|left; left; exact HP].
      apply andb_prop in E. destruct E as [E1 E2]. apply N.eqb_eq in E1, E2. subst. right. reflexivity.
    - apply lcommitf_inv in H. destruct H as (_ & _ & _ & _ & ->). left.
      destruct HP as [HP|(i & Hi & HP)]; [left; exact HP|right].
      exists i. split; [exact Hi|]. cbn in HP. destruct (N.eqb_spec z n) as [->|Hne]; exact HP.
    - apply llogimage_inv in H. destruct H as (_ & ->). left.
      destruct HP as [HP|(i & Hi & HP)]; [left; exact HP|right].
      exists i. split; [exact Hi|]. cbn in HP. destruct (N.eqb_spec z n) as [->|Hne]; exact HP.
    - apply llogfsync_inv in H. destruct H as (img & rest & _ & _ & _ & ->). left.
      destruct HP as [HP|(i & Hi & HP)]; [left; exact HP|right].
      exists i. split; [exact Hi|]. cbn in HP. destruct (N.eqb_spec z n) as [->|Hne]; exact HP.
  Qed.

  Lemma lstep_dterm_mono s l s' z : lreachable s -> lrule l s = Some s' ->
    p_dterm (nodes (el s) z) <= p_dterm (nodes (el s') z).
  Proof.
    intros Hr H. destruct (lstep_el _ _ _ _ _ H) as [E|(l0 & _ & Hp)]; [rewrite E; lia|].
    eapply dterm_mono; [|exact Hp]. apply reachable_Inv. apply lreachable_el. exact Hr.
  Qed.

  Lemma Block_step s l s' T k : lreachable s -> lrule l s = Some s' -> Block s T k -> Block s' T k.
  Proof.
    intros Hr H (Q & HQ & HB). exists Q. split; [exact HQ|]. intros z Hz. destruct (HB z Hz) as [Hd Hnp].
    pose proof (lstep_dterm_mono s l s' z Hr H) as Hm. split; [lia|].
    intros HP. destruct (promised_step _ _ _ _ _ _ H HP) as [HP0|E]; [exact (Hnp HP0)|].
    pose proof (dterm_le_term inc out (el s) z (reachable_Inv inc out _ (lreachable_el _ _ _ Hr))). lia.
  Qed.
End Block.

Lemma seq_ok_none_last P B l0 y : (forall X, In X l0 -> ~ P X) -> seq_ok P B (l0 ++ [y]).
Proof.
  intros H. induction l0 as [|X r IH]; cbn.
  - split; [intros _ Y []|exact I].
  - split; [intros HX; exfalso; apply (H X); [left; reflexivity|exact HX]|].
    apply IH. intros Y HY. apply H. right. exact HY.
Qed.

Lemma seq_ok_none P B l : (forall X, In X l -> ~ P X) -> seq_ok P B l.
Proof.
  intros H. induction l as [|X r IH]; cbn; [exact I|].
  split; [intros HX; exfalso; apply (H X); [left; reflexivity|exact HX]|].
  apply IH. intros Y HY. apply H. right. exact HY.
Qed.

Lemma all_or {A} (P : A -> Prop) (B : Prop) (l : list A) :
  (forall z, {P z} + {~ P z}) -> (forall z, In z l -> P z -> B) -> (forall z, In z l -> ~ P z) \/ B.
Proof.
  intros D H. induction l as [|x r IH]; [left; intros z []|].
  destruct (D x) as [Hx|Hx]; [right; apply (H x); [left; reflexivity|exact Hx]|].
  destruct IH as [IH|IH]; [intros z Hz; apply H; right; exact Hz| |right; exact IH].
  left. intros z [<-|Hz]; [exact Hx|apply IH; exact Hz].
Qed.

(* ------------------------------------------------------------------ *)
(** * The safety invariant *)

Section NInv.
  Variables (inc out : list N).
  Hypothesis inc_nonempty : inc <> [].
  Hypothesis Hmulti : no_single_quorum inc out.
  Notation lrule := (lrule inc out).
  Notation lreachable := (lreachable inc out).
  Notation Block := (Block inc out).

  (* a recorded leader's log is non-empty (it starts with the no-op of its term) *)
  Lemma leader_llog_nonempty s : lreachable s -> forall t c, In c (leaders (el s) t) -> llog s t <> [].
  Proof.
    induction 1 as [|s l s' Hr IH Hstep]; [intros t c []|]. intros t c Hin.
    pose proof (lreachable_LInv inc out inc_nonempty Hmulti s Hr) as HL.
    pose proof (llog_grows inc out inc_nonempty Hmulti s l s' Hr HL Hstep t) as [suf Hs].
    assert (Hold : In c (leaders (el s) t) -> llog s' t <> []).
    { intros Hc. specialize (IH t c Hc). rewrite Hs. destruct (llog s t); [congruence|discriminate]. }
    destruct (lstep_el _ _ _ _ _ Hstep) as [E|(l0 & -> & Hp)]; [rewrite E in Hin; auto|].
    destruct (prule_shape _ _ _ _ _ Hp) as (k & p' & Hn & [[Hl _]|(_ & _ & _ & _ & -> & Hl)]).
    - rewrite Hl in Hin. auto.
    - rewrite Hl in Hin. destruct (N.eqb_spec t (p_term (nodes (el s) k))) as [->|Hne]; [|auto].
      destruct (lel_inv _ _ _ _ _ Hstep) as (e' & He & Hel & _ & Hs').
      destruct (become_leader_inv _ _ _ _ _ He) as (_ & _ & _ & Ee).
      assert (Et : p_term (nodes e' k) = p_term (nodes (el s) k))
        by (rewrite Ee; cbn; rewrite N.eqb_refl; reflexivity).
      rewrite Hs'. cbn. rewrite Et, N.eqb_refl. destruct (l_log (ln s k)); discriminate.
  Qed.

  Record NInv (s : lst) : Prop := {
    (* leader completeness, for every own-term index of every leader log *)
    n_lead : forall T k t, own (llog s) T k -> T < t -> llog s t <> [] ->
        Agree (llog s) T k (llog s t) \/ Block s T k;
    (* a node that promised (T, k) only votes for candidates whose log agrees *)
    n_vote : forall T k q c t, own (llog s) T k -> T < t -> promised s q T k -> Vote (el s) q c t -> c <> 0 ->
        Agree (llog s) T k (clog s c t) \/ Block s T k;
    n_created : forall T k q i, own (llog s) T k -> (k <= i)%nat -> In (T, i) (l_acks (ln s q)) ->
        Agree (llog s) T k (l_log (ln s q)) \/ Block s T k;
    n_acked : forall T k q, own (llog s) T k -> (k <= acked s q T)%nat ->
        Agree (llog s) T k (l_dlog (ln s q)) \/ Block s T k;
    (* once the durable log / an image agrees, everything handed out later does *)
    n_seq : forall T k q, own (llog s) T k -> seq_ok (Agree (llog s) T k) (Block s T k) (Seq s q)
  }.

  Lemma NInv_init : NInv linit.
  Proof.
    constructor; unfold own; cbn; intros; lia.
  Qed.

  Lemma promised_log s T k q : NInv s -> own (llog s) T k -> promised s q T k ->
    Agree (llog s) T k (l_log (ln s q)) \/ Block s T k.
  Proof.
    intros HN Ho [HP|(i & Hi & HP)]; [|eapply n_created; eassumption].
    destruct (n_acked s HN T k q Ho HP) as [Ha|HB]; [|right; exact HB].
    eapply seq_ok_head_last; [apply (n_seq s HN T k q Ho)|exact Ha].
  Qed.
  (* steps that leave the leader logs alone: it suffices to account for what is new *)
  Lemma NInv_transfer s s' :
    NInv s -> llog s' = llog s ->
    (forall T k, Block s T k -> Block s' T k) ->
    (forall T k q c t, own (llog s) T k -> T < t -> promised s' q T k -> Vote (el s') q c t -> c <> 0 ->
        (promised s q T k /\ Vote (el s) q c t /\ clog s' c t = clog s c t) \/
        Agree (llog s) T k (clog s' c t) \/ Block s T k) ->
    (forall T k q i, own (llog s) T k -> (k <= i)%nat -> In (T, i) (l_acks (ln s' q)) ->
        (In (T, i) (l_acks (ln s q)) /\ l_log (ln s' q) = l_log (ln s q)) \/
        Agree (llog s) T k (l_log (ln s' q)) \/ Block s T k) ->
    (forall T k q, own (llog s) T k -> (k <= acked s' q T)%nat ->
        ((k <= acked s q T)%nat /\ l_dlog (ln s' q) = l_dlog (ln s q)) \/
        Agree (llog s) T k (l_dlog (ln s' q)) \/ Block s T k) ->
    (forall T k q, own (llog s) T k -> seq_ok (Agree (llog s) T k) (Block s T k) (Seq s' q)) ->
    NInv s'.
  Proof.
    intros HN El HB Hv Hc Ha Hs. constructor; rewrite El.
    - intros T k t Ho Ht Hne. destruct (n_lead s HN T k t Ho Ht Hne) as [H|H]; [left; exact H|right; auto].
    - intros T k q c t Ho Ht HP HV Hc0.
      destruct (Hv T k q c t Ho Ht HP HV Hc0) as [(HP0 & HV0 & Ec)|[H|H]]; [|left; exact H|right; auto].
      rewrite Ec. destruct (n_vote s HN T k q c t Ho Ht HP0 HV0 Hc0) as [H|H]; [left; exact H|right; auto].
    - intros T k q i Ho Hi Hin.
      destruct (Hc T k q i Ho Hi Hin) as [(Hin0 & El0)|[H|H]]; [|left; exact H|right; auto].
      rewrite El0. destruct (n_created s HN T k q i Ho Hi Hin0) as [H|H]; [left; exact H|right; auto].
    - intros T k q Ho Hk.
      destruct (Ha T k q Ho Hk) as [(Hk0 & Ed)|[H|H]]; [|left; exact H|right; auto].
      rewrite Ed. destruct (n_acked s HN T k q Ho Hk0) as [H|H]; [left; exact H|right; auto].
    - intros T k q Ho. apply seq_ok_ext with (P := Agree (llog s) T k) (B := Block s T k).
      + intros X. split; intros HX; exact HX.
      + exact (HB T k).
      + apply Hs. exact Ho.
  Qed.

  (* adopting a prefix of the current term's leader log keeps agreement *)
  Lemma adopt_agree s n m T k :
    NInv s -> EInv s -> own (llog s) T k ->
    let t := p_term (nodes (el s) n) in
    (m <= length (llog s t))%nat -> is_prefix (firstn m (llog s t)) (l_log (ln s n)) = false ->
    Agree (llog s) T k (l_log (ln s n)) -> Agree (llog s) T k (firstn m (llog s t)) \/ Block s T k.
  Proof.
    intros HN HE Ho t Hm Hnp Hold.
    assert (HTt : T <= t).
    { pose proof (Agree_term_at _ _ _ _ Ho Hold) as Ek. destruct Hold as [Hl _]. destruct Ho as [[Hk1 _] _].
      destruct (term_at_In (l_log (ln s n)) k) as (e & He & Ee); [lia|].
      rewrite <- Ek, <- Ee. apply (e_log s HE n e He). }
    assert (Hsrc : Agree (llog s) T k (llog s t) \/ Block s T k).
    { destruct (N.eq_dec T t) as [<-|Hne]; [left; apply Agree_self; destruct Ho as [[_ Hk] _]; exact Hk|].
      apply (n_lead s HN T k t Ho); [lia|]. intros E. rewrite E in Hnp. cbn in Hnp.
      rewrite firstn_nil in Hnp. cbn in Hnp. discriminate. }
    destruct Hsrc as [Hsrc|HB]; [left|right; exact HB].
    exact (Agree_adopt (llog s) T k (l_log (ln s n)) (llog s t) m Hold Hsrc Hnp Hm).
  Qed.
  (* a log that is a prefix-path of the old leader logs cannot contain the entry being appended *)
  Lemma no_agree_new (lg lg' : N -> list ent) t L' X :
    good lg X -> (length (lg t) < length L')%nat -> lg' t = L' -> term_at L' (length L') = t ->
    ~ Agree lg' t (length L') X.
  Proof.
    intros HX Hlen El Et [H1 H2]. rewrite El, firstn_all in H2.
    assert (Ek : term_at X (length L') = t).
    { rewrite <- Et. apply term_at_firstn_eq. rewrite H2, firstn_all. reflexivity. }
    destruct (HX (length L')) as [Hc _]; [lia|]. rewrite Ek in Hc. lia.
  Qed.

  (* a leader (new or old) appends an entry of its term *)
  Lemma NInv_append s l s' c en :
    let L := l_log (ln s c) in
    let t := eterm en in
    lreachable s -> lrule l s = Some s' -> NInv s ->
    s' = set_llog (set_ln (set_el s (el s')) c (with_log (ln s c) (L ++ [en]))) t (L ++ [en]) ->
    (llog s t = L \/ llog s t = []) ->
    (forall q c0 t0, c0 <> 0 -> Vote (el s') q c0 t0 -> Vote (el s) q c0 t0) ->
    (forall T k, own (llog s) T k -> T < t -> Agree (llog s) T k L \/ Block s' T k) ->
    NInv s'.
  Proof.
    intros L t Hr Hstep HN Es' Hlt HVote Hnew.
    pose proof (lreachable_LInv inc out inc_nonempty Hmulti s Hr) as HL.
    pose proof (lreachable_EInv inc out inc_nonempty Hmulti s Hr) as HE.
    pose proof (llog_grows inc out inc_nonempty Hmulti s l s' Hr HL Hstep) as Hgr.
    pose proof (reachable_Inv inc out _ (lreachable_el _ _ _ Hr)) as HIe.
    set (L' := L ++ [en]) in *.
    assert (Elt : llog s' t = L') by (rewrite Es'; cbn; rewrite N.eqb_refl; reflexivity).
    assert (Elo : forall u, u <> t -> llog s' u = llog s u).
    { intros u Hu. rewrite Es'. cbn. apply N.eqb_neq in Hu. rewrite Hu. reflexivity. }
    assert (Hlen : (length (llog s t) <= length L)%nat) by (destruct Hlt as [->| ->]; cbn; lia).
    assert (HlenL' : length L' = S (length L)) by (unfold L'; rewrite app_length; cbn; lia).
    assert (EtL' : term_at L' (length L') = t) by (rewrite HlenL'; apply term_at_app_last).
    assert (Eln : forall q, ln s' q = if q =? c then with_log (ln s c) L' else ln s q) by (intros; rewrite Es'; reflexivity).
    assert (Eacks : forall q, l_acks (ln s' q) = l_acks (ln s q)).
    { intros q. rewrite Eln. destruct (N.eqb_spec q c) as [->|]; reflexivity. }
    assert (Edlog : forall q, l_dlog (ln s' q) = l_dlog (ln s q)).
    { intros q. rewrite Eln. destruct (N.eqb_spec q c) as [->|]; reflexivity. }
    assert (Eimgs : forall q, l_imgs (ln s' q) = l_imgs (ln s q)).
    { intros q. rewrite Eln. destruct (N.eqb_spec q c) as [->|]; reflexivity. }
    assert (Eacked : acked s' = acked s) by (rewrite Es'; reflexivity).
    assert (Eclog : clog s' = clog s) by (rewrite Es'; reflexivity).
    assert (Hprom : forall q T k, promised s' q T k -> promised s q T k).
    { intros q T k. unfold promised. rewrite Eacked, Eacks. auto. }
    assert (Hpb : forall q T k, promised s q T k -> (k <= length (llog s T))%nat).
    { intros q T k [HP|(i & Hi & HP)]; [pose proof (e_acked s HE q T); lia|].
      pose proof (e_acks s HE q T i HP). lia. }
    assert (HB : forall T k, Block s T k -> Block s' T k) by (intros; eapply Block_step; eassumption).
    (* classification of the own-term indexes of the new state *)
    assert (Hown : forall T k, own (llog s') T k ->
              (own (llog s) T k /\ (k <= length (llog s T))%nat) \/ (T = t /\ k = length L')).
    { intros T k Ho. destruct (le_lt_dec k (length (llog s T))) as [Hk|Hk].
      - left. split; [eapply own_shrinks; eassumption|exact Hk].
      - right. destruct (N.eq_dec T t) as [->|Hne]; [|unfold own in Ho; rewrite (Elo T Hne) in Ho; destruct Ho as [[_ Ho] _]; lia].
        split; [reflexivity|]. destruct Ho as [[Hk1 Hk2] Ht]. rewrite Elt in Hk2, Ht.
        destruct (Nat.eq_dec k (length L')) as [Ek|Nk]; [exact Ek|exfalso].
        assert (HkL : (k <= length L)%nat) by lia.
        unfold L' in Ht. rewrite term_at_app_l in Ht by exact HkL.
        destruct (li_Dlog s HL c k) as [Hc _]; [fold L; lia|]. fold L in Hc. rewrite Ht in Hc. lia. }
    assert (Hnoagree : forall X, good (llog s) X -> ~ Agree (llog s') t (length L') X).
    { intros X HX. apply no_agree_new with (lg := llog s); [exact HX|lia|exact Elt|exact EtL']. }
    assert (Hnoprom : forall q, ~ promised s' q t (length L')).
    { intros q HP. apply Hprom, Hpb in HP. lia. }
    (* leaders of later terms already elected block the new index *)
    assert (Hblock : forall t0, t < t0 -> llog s t0 <> [] -> Block s' t (length L')).
    { intros t0 Ht0 Hne. destruct (li_C1 s HL t0 Hne) as [c0 Hc0].
      destruct (inv_leader _ _ _ HIe _ _ Hc0) as (Q & HQ & HQv). exists Q. split; [exact HQ|].
      intros z Hz. split; [|apply Hnoprom].
      assert (Hv : exists c1, voted (el s) z t0 = Some c1).
      { destruct (HQv z Hz) as [->|Hv]; [|eauto]. exists c0.
        apply (leader_vote_durable inc out Hmulti (el s)); [apply lreachable_el; exact Hr|exact Hc0]. }
      destruct Hv as [c1 Hv]. pose proof (voted_le_dterm inc out _ _ _ _ HIe Hv).
      pose proof (lstep_dterm_mono inc out s l s' z Hr Hstep). lia. }
    assert (Hag : forall T k X, (k <= length (llog s T))%nat -> Agree (llog s) T k X <-> Agree (llog s') T k X)
      by (intros; apply Agree_grows; assumption).
    constructor.
    - (* leader completeness *)
      intros T k t0 Ho Ht0 Hne. destruct (Hown T k Ho) as [[Ho0 Hk]|[-> ->]].
      + destruct (N.eq_dec t0 t) as [->|Hnt].
        * rewrite Elt. destruct (Hnew T k Ho0 Ht0) as [Ha|Hb]; [left|right; exact Hb].
          apply Hag; [exact Hk|]. apply Agree_app. exact Ha.
        * rewrite (Elo t0 Hnt) in *. destruct (n_lead s HN T k t0 Ho0 Ht0 Hne) as [Ha|Hb]; [left|right; auto].
          apply Hag; assumption.
      + right. assert (Hnt : t0 <> t) by lia. rewrite (Elo t0 Hnt) in Hne. eapply Hblock; eassumption.
    - (* votes *)
      intros T k q c0 t0 Ho Ht0 HP HV Hc0. destruct (Hown T k Ho) as [[Ho0 Hk]|[-> ->]].
      + rewrite Eclog. destruct (n_vote s HN T k q c0 t0 Ho0 Ht0 (Hprom _ _ _ HP) (HVote _ _ _ Hc0 HV) Hc0) as [Ha|Hb];
          [left; apply Hag; assumption|right; auto].
      + exfalso. eapply Hnoprom; exact HP.
    - (* created acknowledgements *)
      intros T k q i Ho Hi Hin. destruct (Hown T k Ho) as [[Ho0 Hk]|[-> ->]].
      + rewrite Eacks in Hin. destruct (n_created s HN T k q i Ho0 Hi Hin) as [Ha|Hb]; [left|right; auto].
        apply Hag; [exact Hk|]. rewrite Eln. destruct (N.eqb_spec q c) as [->|Hne]; [|exact Ha].
        cbn. apply Agree_app. exact Ha.
      + exfalso. apply (Hnoprom q). right. exists i. split; [exact Hi|exact Hin].
    - (* released acknowledgements *)
      intros T k q Ho Hk0. destruct (Hown T k Ho) as [[Ho0 Hk]|[-> ->]].
      + rewrite Eacked in Hk0. rewrite Edlog.
        destruct (n_acked s HN T k q Ho0 Hk0) as [Ha|Hb]; [left; apply Hag; assumption|right; auto].
      + exfalso. apply (Hnoprom q). left. exact Hk0.
    - (* persistence sequences *)
      intros T k q Ho. unfold Seq. rewrite Edlog, Eimgs. destruct (Hown T k Ho) as [[Ho0 Hk]|[-> ->]].
      + apply seq_ok_ext with (P := Agree (llog s) T k) (B := Block s T k); [intros X; apply Hag; exact Hk|apply HB|].
        rewrite Eln. destruct (N.eqb_spec q c) as [->|Hne]; [|apply (n_seq s HN T k q Ho0)].
        cbn [with_log l_log]. eapply seq_ok_replace_last; [apply (n_seq s HN T k c Ho0)|].
        intros Ha. left. apply Agree_app. exact Ha.
      + rewrite Eln. destruct (N.eqb_spec q c) as [->|Hne].
        * cbn [with_log l_log]. apply seq_ok_none_last. intros X [<-|HX]; apply Hnoagree;
            [apply (li_Ddlog s HL)|eapply (li_Dimg s HL); exact HX].
        * apply seq_ok_none. intros X HX. apply Hnoagree. apply in_app_iff in HX.
          destruct HX as [[<-|HX]|[<-|[]]];
            [apply (li_Ddlog s HL)|eapply (li_Dimg s HL); exact HX|apply (li_Dlog s HL)].
  Qed.
  Lemma Seq_set_ln s n x' q :
    Seq (set_ln s n x') q = if q =? n then (l_dlog x' :: l_imgs x') ++ [l_log x'] else Seq s q.
  Proof. unfold Seq. cbn. destruct (q =? n); reflexivity. Qed.

  (* election-layer rules other than BecomeLeader *)
  Lemma NInv_step_el s l0 s' : lreachable s -> NInv s -> lrule (LEl l0) s = Some s' ->
    (forall c, l0 <> LBecomeLeader c) -> NInv s'.
  Proof.
    intros Hr HN H Hnb.
    pose proof (lreachable_LInv inc out inc_nonempty Hmulti s Hr) as HL.
    pose proof (lreachable_EInv inc out inc_nonempty Hmulti s Hr) as HE.
    pose proof (reachable_Inv inc out _ (lreachable_el _ _ _ Hr)) as HIe.
    assert (HB : forall T k, Block s T k -> Block s' T k) by (intros; eapply Block_step; eassumption).
    destruct (lel_inv _ _ _ _ _ H) as (e' & He & Hel & Hs).
    pose proof (fun q c t => Vote_step inc out (el s) l0 e' q c t HIe He) as HVs.
    destruct l0 as [n|n|n|n t|n c t|n t|n t|c n|c|n t|n|n|n];
      try (subst s'; apply (NInv_transfer s _ HN); [reflexivity|exact HB| | | |];
           [intros T k q c0 t0 Ho Ht HP HV Hc0; left; split; [exact HP|]; split; [|reflexivity];
            destruct (HVs q c0 t0 HV Hc0) as [V|[E|[E _]]]; [exact V|discriminate E|discriminate E]
           |intros; left; split; [assumption|reflexivity]
           |intros; left; split; [assumption|reflexivity]
           |intros T k q Ho; apply (n_seq s HN T k q Ho)]).
    - (* campaign *)
      destruct (campaign_inv _ _ _ _ _ He) as (_ & Hn0 & Ee).
      assert (Et : p_term (nodes e' n) = p_term (nodes (el s) n) + 1)
        by (rewrite Ee; cbn; rewrite N.eqb_refl; reflexivity).
      subst s'. apply (NInv_transfer s _ HN); [reflexivity|exact HB| | | |].
      + intros T k q c0 t0 Ho Ht HP HV Hc0. change (promised s q T k) in HP.
        cbn [set_clog set_el clog el].
        destruct (HVs q c0 t0 HV Hc0) as [V|[E|(E & -> & ->)]]; [|discriminate E|].
        * left. split; [exact HP|]. split; [exact V|].
          destruct ((c0 =? n) && (t0 =? p_term (nodes e' n))) eqn:Eb; [exfalso|reflexivity].
          apply andb_prop in Eb. destruct Eb as [E1 E2]. apply N.eqb_eq in E1, E2. subst c0 t0.
          pose proof (Vote_term_le inc out _ _ _ _ HIe V) as Hle.
          destruct (N.eq_dec q n) as [->|Hne]; [lia|].
          pose proof (Vote_other inc out _ _ _ _ HIe V Hc0 Hne) as Hv.
          pose proof (voted_le_dterm inc out _ _ _ _ HIe Hv). pose proof (dterm_le_term inc out (el s) n HIe). lia.
        * inversion E; subst q. right. rewrite <- Et, !N.eqb_refl. cbn.
          apply (promised_log s T k n HN Ho HP).
      + intros; left; split; [assumption|reflexivity].
      + intros; left; split; [assumption|reflexivity].
      + intros T k q Ho; apply (n_seq s HN T k q Ho).
    - (* grant *)
      destruct Hs as [-> Hup]. apply (NInv_transfer s _ HN); [reflexivity|exact HB| | | |].
      + intros T k q c0 t0 Ho Ht HP HV Hc0. change (promised s q T k) in HP.
        destruct (HVs q c0 t0 HV Hc0) as [V|[E|[E _]]]; [left; auto| |discriminate E].
        inversion E; subst q c0 t0. right. cbn [set_el clog].
        destruct (promised_log s T k n HN Ho HP) as [Ha|Hb]; [|right; exact Hb].
        apply up_to_date_agree with (t := t) (V := l_log (ln s n)); try assumption.
        * apply (e_sorted s HE).
        * apply (li_Dclog s HL).
        * apply (li_Dlog s HL).
        * apply (e_clog s HE).
        * intros u Hu1 Hu2 Hne. apply (n_lead s HN T k u Ho Hu1 Hne).
      + intros; left; split; [assumption|reflexivity].
      + intros; left; split; [assumption|reflexivity].
      + intros T k q Ho; apply (n_seq s HN T k q Ho).
    - exfalso. eapply Hnb. reflexivity.
    - (* crash *)
      subst s'. apply (NInv_transfer s _ HN); [reflexivity|exact HB| | | |].
      + intros T k q c0 t0 Ho Ht HP HV Hc0. left. split; [|split; [|reflexivity]].
        * destruct HP as [HP|(i & Hi & HP)]; [left; exact HP|right]. exists i. split; [exact Hi|].
          cbn in HP. destruct (q =? n); [destruct HP|exact HP].
        * destruct (HVs q c0 t0 HV Hc0) as [V|[E|[E _]]]; [exact V|discriminate E|discriminate E].
      + intros T k q i Ho Hi Hin. left. cbn in Hin |- *. destruct (q =? n); [destruct Hin|]. auto.
      + intros T k q Ho Hk. left. split; [exact Hk|]. cbn. destruct (N.eqb_spec q n) as [->|]; reflexivity.
      + intros T k q Ho. rewrite Seq_set_ln. destruct (q =? n); [|apply (n_seq s HN T k q Ho)].
        cbn. split; [intros Ha Y [<-|[]]; left; exact Ha|]. split; [intros _ Y []|exact I].
  Qed.
  Lemma NInv_step_become s c s' : lreachable s -> NInv s -> lrule (LEl (LBecomeLeader c)) s = Some s' -> NInv s'.
  Proof.
    intros Hr HN H.
    pose proof (lreachable_LInv inc out inc_nonempty Hmulti s Hr) as HL.
    pose proof (lreachable_EInv inc out inc_nonempty Hmulti s Hr) as HE.
    pose proof (lreachable_el _ _ _ Hr) as Hre.
    pose proof (reachable_Inv inc out _ Hre) as HIe.
    assert (HB : forall T k, Block s T k -> Block s' T k) by (intros; eapply Block_step; eassumption).
    destruct (lel_inv _ _ _ _ _ H) as (e' & He & Hel & Hcl & Hs).
    assert (Hre' : reachable inc out e') by (eapply reach_step; eassumption).
    pose proof (reachable_Inv inc out _ Hre') as HIe'.
    destruct (become_leader_inv _ _ _ _ _ He) as (Hpc & Hup & Hq & Ee).
    assert (Et : p_term (nodes e' c) = p_term (nodes (el s) c))
      by (rewrite Ee; cbn; rewrite N.eqb_refl; reflexivity).
    set (t := p_term (nodes (el s) c)) in *.
    destruct (inv_self _ _ _ HIe c) as [Hvc Hc0]; [congruence|].
    apply (NInv_append s (LEl (LBecomeLeader c)) s' c (t, 0) Hr H HN).
    - rewrite Hel, <- Et. exact Hs.
    - right. cbn [eterm fst]. apply (new_leader_llog_nil inc out inc_nonempty Hmulti s c e' Hr HL He).
    - intros q c0 t0 Hc00 HV. rewrite Hel in HV.
      destruct (Vote_step inc out (el s) _ e' q c0 t0 HIe He HV Hc00) as [V|[E|[E _]]];
        [exact V|discriminate E|discriminate E].
    - cbn [eterm fst]. intros T k Ho HTt.
      destruct (Agree_dec (llog s) T k (l_log (ln s c))) as [Ha|Hna]; [left; exact Ha|right].
      (* every recorded grant comes from a node that has not promised (T, k) *)
      assert (Hall : (forall z, In z (p_granted (nodes (el s) c)) -> ~ promised s z T k) \/ Block s T k).
      { apply all_or; [intros z; apply promised_dec|]. intros z Hz HP.
        assert (HV : Vote (el s) z c t).
        { destruct (inv_granted _ _ _ HIe c z Hpc Hz) as [->|Hv]; [|right; exact Hv].
          left. apply in_or_app. right. left. unfold vol. rewrite Hvc. reflexivity. }
        destruct (n_vote s HN T k z c t Ho HTt HP HV Hc0) as [Ha|Hb]; [|exact Hb].
        exfalso. apply Hna. rewrite Hcl, Et. exact Ha. }
      destruct Hall as [Hall|Hb]; [|apply HB; exact Hb].
      exists (p_granted (nodes (el s) c)). split; [exact Hq|]. intros z Hz.
      assert (Hd : t <= p_dterm (nodes (el s') z)).
      { rewrite Hel. destruct (inv_granted _ _ _ HIe c z Hpc Hz) as [->|Hv].
        - apply (voted_le_dterm inc out e' c t c HIe').
          apply (leader_vote_durable inc out Hmulti e' t c Hre'). rewrite Ee. cbn.
          fold t. rewrite N.eqb_refl. left. reflexivity.
        - pose proof (voted_le_dterm inc out _ _ _ _ HIe Hv).
          pose proof (dterm_mono inc out (el s) _ e' z HIe He). fold t in H0. lia. }
      split; [lia|]. intros HP.
      destruct (promised_step inc out _ _ _ _ _ _ H HP) as [HP0|E]; [exact (Hall z Hz HP0)|].
      assert (t <= p_term (nodes (el s) z)); [|lia].
      destruct (inv_granted _ _ _ HIe c z Hpc Hz) as [->|Hv]; [unfold t; lia|].
      pose proof (voted_le_dterm inc out _ _ _ _ HIe Hv). pose proof (dterm_le_term inc out (el s) z HIe).
      fold t in H0. lia.
  Qed.

  Lemma NInv_step_propose s c x s' : lreachable s -> NInv s -> lrule (LPropose c x) s = Some s' -> NInv s'.
  Proof.
    intros Hr HN H.
    pose proof (lreachable_LInv inc out inc_nonempty Hmulti s Hr) as HL.
    pose proof (lreachable_el _ _ _ Hr) as Hre.
    assert (HB : forall T k, Block s T k -> Block s' T k) by (intros; eapply Block_step; eassumption).
    pose proof H as H0. apply lpropose_inv in H0. destruct H0 as (Hl & Hs).
    assert (Eel : el s' = el s) by (rewrite Hs; reflexivity).
    pose proof Hl as Hl'. apply own_term_leader_spec in Hl'. destruct Hl' as [Hrl Hup].
    set (t := p_term (nodes (el s) c)) in *.
    apply (NInv_append s (LPropose c x) s' c (t, x) Hr H HN).
    - rewrite Eel. exact Hs.
    - left. cbn [eterm fst]. symmetry. apply (li_B s HL c Hl).
    - intros q c0 t0 _ HV. rewrite Eel in HV. exact HV.
    - cbn [eterm fst]. intros T k Ho HTt. rewrite (li_B s HL c Hl). fold t.
      destruct (n_lead s HN T k t Ho HTt) as [Ha|Hb]; [|left; exact Ha|right; apply HB; exact Hb].
      apply (leader_llog_nonempty s Hr t c). apply (leader_recorded inc out); assumption.
  Qed.
  Lemma Agree_cover lg T k i L : (k <= i)%nat -> (i <= length (lg T))%nat ->
    (exists suf, L = firstn i (lg T) ++ suf) -> Agree lg T k L.
  Proof. intros Hki Hi Hsuf. apply Agree_le with (k := i); [exact Hki|]. apply Agree_prefix; assumption. Qed.

  Lemma NInv_step_log s l s' : lreachable s -> NInv s -> lrule l s = Some s' ->
    (forall l0, l <> LEl l0) -> (forall c x, l <> LPropose c x) -> NInv s'.
  Proof.
    intros Hr HN H Hnel Hnp.
    pose proof (lreachable_LInv inc out inc_nonempty Hmulti s Hr) as HL.
    pose proof (lreachable_EInv inc out inc_nonempty Hmulti s Hr) as HE.
    pose proof (reachable_Inv inc out _ (lreachable_el _ _ _ Hr)) as HIe.
    assert (HB : forall T k, Block s T k -> Block s' T k) by (intros; eapply Block_step; eassumption).
    destruct l as [l0|c x|n m|q i|q t i|c k0|n k0|n|n]; [exfalso; eapply Hnel; reflexivity|exfalso; eapply Hnp; reflexivity| | | | | | |].
    - (* adopt *)
      apply ladopt_inv in H. cbv zeta in H. destruct H as (_ & _ & Hm & Hch & _ & _ & ->).
      apply (NInv_transfer s _ HN); [reflexivity|exact HB| | | |].
      + intros T k q c0 t0 Ho Ht HP HV Hc0. left. split; [|split; [exact HV|reflexivity]].
        destruct HP as [HP|(i & Hi & HP)]; [left; exact HP|right]. exists i. split; [exact Hi|].
        cbn in HP. destruct (N.eqb_spec q n) as [->|]; exact HP.
      + intros T k q i Ho Hi Hin. cbn in Hin |- *. destruct (N.eqb_spec q n) as [->|Hne]; [|left; auto].
        cbn in Hin |- *. right. destruct (n_created s HN T k n i Ho Hi Hin) as [Ha|Hb]; [|right; exact Hb].
        apply adopt_agree; assumption.
      + intros T k q Ho Hk. left. split; [exact Hk|]. cbn. destruct (N.eqb_spec q n) as [->|]; reflexivity.
      + intros T k q Ho. rewrite Seq_set_ln. destruct (N.eqb_spec q n) as [->|Hne]; [|apply (n_seq s HN T k q Ho)].
        cbn [with_log l_log l_dlog l_imgs]. eapply seq_ok_replace_last; [apply (n_seq s HN T k n Ho)|].
        intros Ha. apply adopt_agree; assumption.
    - (* make ack *)
      apply lmkack_inv in H. cbv zeta in H. destruct H as (_ & _ & Hi & Hcov & ->).
      apply (NInv_transfer s _ HN); [reflexivity|exact HB| | | |].
      + intros T k q0 c0 t0 Ho Ht HP HV Hc0. left. split; [|split; [exact HV|reflexivity]].
        destruct HP as [HP|(i0 & Hi0 & HP)]; [left; exact HP|]. cbn in HP.
        destruct (N.eqb_spec q0 q) as [->|]; [|right; eauto]. cbn in HP.
        destruct HP as [HP|HP]; [|right; eauto]. inversion HP; subst. exfalso.
        pose proof (Vote_term_le inc out _ _ _ _ HIe HV). lia.
      + intros T k q0 i0 Ho Hi0 Hin. cbn in Hin |- *. destruct (N.eqb_spec q0 q) as [->|Hne]; [|left; auto].
        cbn in Hin |- *. destruct Hin as [Hin|Hin]; [|left; auto]. inversion Hin; subst. right. left.
        apply Agree_cover with (i := i0); assumption.
      + intros T k q0 Ho Hk. left. split; [exact Hk|]. cbn. destruct (N.eqb_spec q0 q) as [->|]; reflexivity.
      + intros T k q0 Ho. rewrite Seq_set_ln. destruct (N.eqb_spec q0 q) as [->|Hne]; apply (n_seq s HN T k _ Ho).
    - (* release ack *)
      apply lrelack_inv in H. destruct H as (Hin & Hcov & Hi & ->).
      destruct (acked s q t <? i)%nat; [|exact HN].
      apply (NInv_transfer s _ HN); [reflexivity|exact HB| | | |].
      + intros T k q0 c0 t0 Ho Ht HP HV Hc0. left. split; [|split; [exact HV|reflexivity]].
        destruct HP as [HP|HP]; [|right; exact HP]. cbn in HP.
        destruct ((q0 =? q) && (T =? t)) eqn:E; [|left; exact HP].
        apply andb_prop in E. destruct E as [E1 E2]. apply N.eqb_eq in E1, E2. subst. right. eauto.
      + intros; left; split; [assumption|reflexivity].
      + intros T k q0 Ho Hk. cbn in Hk |- *. destruct ((q0 =? q) && (T =? t)) eqn:E; [|left; auto].
        apply andb_prop in E. destruct E as [E1 E2]. apply N.eqb_eq in E1, E2. subst. right. left.
        apply Agree_cover with (i := i); assumption.
      + intros T k q0 Ho. apply (n_seq s HN T k q0 Ho).
    - (* leader commit *)
      apply lcommitl_inv in H. cbv zeta in H. destruct H as (Hl & Hk0 & _ & _ & _ & ->).
      set (x' := mkLN (l_log (ln s c)) (l_dlog (ln s c)) (l_imgs (ln s c)) k0 (l_acks (ln s c))).
      assert (Hpr : forall q T k, promised (set_ln s c x') q T k -> promised s q T k).
      { intros q T k [HP|(i & Hi & HP)]; [left; exact HP|right]. exists i. split; [exact Hi|].
        cbn in HP. destruct (N.eqb_spec q c) as [->|]; exact HP. }
      destruct (is_prefix (firstn k0 (l_log (ln s c))) (l_dlog (ln s c)) && (acked s c (p_term (nodes (el s) c)) <? k0)%nat) eqn:Eb.
      + apply andb_prop in Eb. destruct Eb as [Eb _]. apply is_prefix_spec in Eb.
        apply (NInv_transfer s _ HN); [reflexivity|exact HB| | | |].
        * intros T k q0 c0 t0 Ho Ht HP HV Hc0. left. split; [|split; [exact HV|reflexivity]].
          destruct HP as [HP|HP]; [|apply Hpr; right; exact HP]. cbn in HP.
          destruct ((q0 =? c) && (T =? p_term (nodes (el s) c))) eqn:E; [|left; exact HP].
          apply andb_prop in E. destruct E as [E1 E2]. apply N.eqb_eq in E1, E2. subst. exfalso.
          pose proof (Vote_term_le inc out _ _ _ _ HIe HV). lia.
        * intros T k q0 i0 Ho Hi0 Hin. left. cbn in Hin |- *. destruct (N.eqb_spec q0 c) as [->|]; auto.
        * intros T k q0 Ho Hk. cbn in Hk.
          assert (Ed : l_dlog (ln (add_cpt (set_acked (set_ln s c x') c (p_term (nodes (el s) c)) k0) (p_term (nodes (el s) c)) k0) q0) = l_dlog (ln s q0)).
          { cbn. destruct (N.eqb_spec q0 c) as [->|]; reflexivity. }
          rewrite Ed. destruct ((q0 =? c) && (T =? p_term (nodes (el s) c))) eqn:E; [|left; auto].
          apply andb_prop in E. destruct E as [E1 E2]. apply N.eqb_eq in E1, E2. subst. right. left.
          apply Agree_cover with (i := k0); [exact Hk| |].
          -- rewrite <- (li_B s HL c Hl). exact Hk0.
          -- rewrite <- (li_B s HL c Hl). exact Eb.
        * intros T k q0 Ho. change (seq_ok (Agree (llog s) T k) (Block s T k) (Seq (set_ln s c x') q0)).
          rewrite Seq_set_ln. destruct (N.eqb_spec q0 c) as [->|Hne]; apply (n_seq s HN T k _ Ho).
      + apply (NInv_transfer s _ HN); [reflexivity|exact HB| | | |].
        * intros T k q0 c0 t0 Ho Ht HP HV Hc0. left. split; [apply Hpr; exact HP|split; [exact HV|reflexivity]].
        * intros T k q0 i0 Ho Hi0 Hin. left. cbn in Hin |- *. destruct (N.eqb_spec q0 c) as [->|]; auto.
        * intros T k q0 Ho Hk. left. split; [exact Hk|]. cbn. destruct (N.eqb_spec q0 c) as [->|]; reflexivity.
        * intros T k q0 Ho. change (seq_ok (Agree (llog s) T k) (Block s T k) (Seq (set_ln s c x') q0)).
          rewrite Seq_set_ln. destruct (N.eqb_spec q0 c) as [->|Hne]; apply (n_seq s HN T k _ Ho).
    - (* follower commit *)
      apply lcommitf_inv in H. destruct H as (_ & _ & _ & _ & ->).
      apply (NInv_transfer s _ HN); [reflexivity|exact HB| | | |].
      + intros T k q0 c0 t0 Ho Ht HP HV Hc0. left. split; [|split; [exact HV|reflexivity]].
        destruct HP as [HP|(i & Hi & HP)]; [left; exact HP|right]. exists i. split; [exact Hi|].
        cbn in HP. destruct (N.eqb_spec q0 n) as [->|]; exact HP.
      + intros T k q0 i0 Ho Hi0 Hin. left. cbn in Hin |- *. destruct (N.eqb_spec q0 n) as [->|]; auto.
      + intros T k q0 Ho Hk. left. split; [exact Hk|]. cbn. destruct (N.eqb_spec q0 n) as [->|]; reflexivity.
      + intros T k q0 Ho. rewrite Seq_set_ln. destruct (N.eqb_spec q0 n) as [->|Hne]; apply (n_seq s HN T k _ Ho).
    - (* log image *)
      apply llogimage_inv in H. destruct H as (_ & ->).
      apply (NInv_transfer s _ HN); [reflexivity|exact HB| | | |].
      + intros T k q0 c0 t0 Ho Ht HP HV Hc0. left. split; [|split; [exact HV|reflexivity]].
        destruct HP as [HP|(i & Hi & HP)]; [left; exact HP|right]. exists i. split; [exact Hi|].
        cbn in HP. destruct (N.eqb_spec q0 n) as [->|]; exact HP.
      + intros T k q0 i0 Ho Hi0 Hin. left. cbn in Hin |- *. destruct (N.eqb_spec q0 n) as [->|]; auto.
      + intros T k q0 Ho Hk. left. split; [exact Hk|]. cbn. destruct (N.eqb_spec q0 n) as [->|]; reflexivity.
      + intros T k q0 Ho. rewrite Seq_set_ln. destruct (N.eqb_spec q0 n) as [->|Hne]; [|apply (n_seq s HN T k _ Ho)].
        cbn [l_log l_dlog l_imgs].
        change (seq_ok (Agree (llog s) T k) (Block s T k)
                  (((l_dlog (ln s n) :: l_imgs (ln s n)) ++ [l_log (ln s n)]) ++ [l_log (ln s n)])).
        apply seq_ok_dup_last. apply (n_seq s HN T k n Ho).
    - (* log fsync *)
      apply llogfsync_inv in H. destruct H as (img & rest & Ei & _ & _ & ->).
      assert (Hseq : forall T k, own (llog s) T k ->
                seq_ok (Agree (llog s) T k) (Block s T k) (l_dlog (ln s n) :: (img :: rest) ++ [l_log (ln s n)])).
      { intros T k Ho. pose proof (n_seq s HN T k n Ho) as Hs. unfold Seq in Hs. rewrite Ei in Hs. exact Hs. }
      apply (NInv_transfer s _ HN); [reflexivity|exact HB| | | |].
      + intros T k q0 c0 t0 Ho Ht HP HV Hc0. left. split; [|split; [exact HV|reflexivity]].
        destruct HP as [HP|(i & Hi & HP)]; [left; exact HP|right]. exists i. split; [exact Hi|].
        cbn in HP. destruct (N.eqb_spec q0 n) as [->|]; exact HP.
      + intros T k q0 i0 Ho Hi0 Hin. left. cbn in Hin |- *. destruct (N.eqb_spec q0 n) as [->|]; auto.
      + intros T k q0 Ho Hk. cbn. destruct (N.eqb_spec q0 n) as [->|]; [|left; auto]. cbn. right.
        destruct (n_acked s HN T k n Ho Hk) as [Ha|Hb]; [|right; exact Hb].
        destruct (Hseq T k Ho) as [Hs _]. apply Hs; [exact Ha|]. left. reflexivity.
      + intros T k q0 Ho. rewrite Seq_set_ln. destruct (N.eqb_spec q0 n) as [->|Hne]; [|apply (n_seq s HN T k _ Ho)].
        cbn [l_log l_dlog l_imgs]. destruct (Hseq T k Ho) as [_ Hs]. exact Hs.
  Qed.

  Theorem NInv_step s l s' : lreachable s -> NInv s -> lrule l s = Some s' -> NInv s'.
  Proof.
    intros Hr HN H. destruct l as [l0|c x|n m|q i|q t i|c k0|n k0|n|n];
      try (eapply NInv_step_log; [exact Hr|exact HN|exact H|discriminate|discriminate]).
    - destruct l0; try (eapply NInv_step_el; [exact Hr|exact HN|exact H|discriminate]).
      eapply NInv_step_become; eassumption.
    - eapply NInv_step_propose; eassumption.
  Qed.

  Theorem lreachable_NInv s : lreachable s -> NInv s.
  Proof.
    induction 1 as [|s l s' Hr IH Hstep]; [apply NInv_init|]. eapply NInv_step; eassumption.
  Qed.
End NInv.

(* ------------------------------------------------------------------ *)
(** * Commit points and commit indexes *)

Lemma label_eq_dec (a b : label) : {a = b} + {a <> b}.
Proof. decide equality; apply N.eq_dec. Qed.

Lemma llabel_eq_dec (a b : llabel) : {a = b} + {a <> b}.
Proof. decide equality; try apply N.eq_dec; try apply Nat.eq_dec; apply label_eq_dec. Qed.

Section KInv.
  Variables (inc out : list N).
  Hypothesis inc_nonempty : inc <> [].
  Hypothesis Hmulti : no_single_quorum inc out.
  Notation lrule := (lrule inc out).
  Notation lreachable := (lreachable inc out).
  Notation Block := (Block inc out).

  Lemma acked_mono s l s' q T : lrule l s = Some s' -> (acked s q T <= acked s' q T)%nat.
  Proof.
    intros H. destruct l as [l0|c x|n m|q0 i|q0 t i|c k0|n k0|n|n].
    - destruct (lel_inv _ _ _ _ _ H) as (e' & He & Hel & Hs).
      destruct l0 as [n|n|n|n t0|n c t0|n t0|n t0|c n|c|n t0|n|n|n]; try (subst s'; cbn; lia);
        [destruct Hs as [-> _]|destruct Hs as [_ ->]]; cbn; lia.
    - apply lpropose_inv in H. destruct H as (_ & ->). cbn. lia.
    - apply ladopt_inv in H. cbv zeta in H. destruct H as (_ & _ & _ & _ & _ & _ & ->). cbn. lia.
    - apply lmkack_inv in H. cbv zeta in H. destruct H as (_ & _ & _ & _ & ->). cbn. lia.
    - apply lrelack_inv in H. destruct H as (_ & _ & _ & ->).
      destruct (acked s q0 t <? i)%nat eqn:E; [|lia]. apply Nat.ltb_lt in E. cbn.
      destruct ((q =? q0) && (T =? t)) eqn:E2; [|lia].
      apply andb_prop in E2. destruct E2 as [E1 E2]. apply N.eqb_eq in E1, E2. subst. lia.
    - apply lcommitl_inv in H. cbv zeta in H. destruct H as (_ & _ & _ & _ & _ & ->).
      destruct (is_prefix _ _ && (acked s c (p_term (nodes (el s) c)) <? k0)%nat) eqn:E; [|cbn; lia].
      apply andb_prop in E. destruct E as [_ E]. apply Nat.ltb_lt in E. cbn.
      destruct ((q =? c) && (T =? p_term (nodes (el s) c))) eqn:E2; [|lia].
      apply andb_prop in E2. destruct E2 as [E1 E2]. apply N.eqb_eq in E1, E2. subst. lia.
    - apply lcommitf_inv in H. destruct H as (_ & _ & _ & _ & ->). cbn. lia.
    - apply llogimage_inv in H. destruct H as (_ & ->). cbn. lia.
    - apply llogfsync_inv in H. destruct H as (img & rest & _ & _ & _ & ->). cbn. lia.
  Qed.

  (* commit points are never removed; a new one comes from a leader commit *)
  Lemma cpts_step s l s' T k : lrule l s = Some s' -> In (T, k) (cpts s') ->
    In (T, k) (cpts s) \/ exists c, l = LCommitL c k /\ T = p_term (nodes (el s) c).
  Proof.
    intros H Hin. destruct l as [l0|c x|n m|q0 i|q0 t i|c k0|n k0|n|n].
    - destruct (lel_inv _ _ _ _ _ H) as (e' & He & Hel & Hs).
      destruct l0 as [n|n|n|n t0|n c t0|n t0|n t0|c n|c|n t0|n|n|n]; try (subst s'; left; exact Hin);
        [destruct Hs as [-> _]|destruct Hs as [_ ->]]; left; exact Hin.
    - apply lpropose_inv in H. destruct H as (_ & ->). left. exact Hin.
    - apply ladopt_inv in H. cbv zeta in H. destruct H as (_ & _ & _ & _ & _ & _ & ->). left. exact Hin.
    - apply lmkack_inv in H. cbv zeta in H. destruct H as (_ & _ & _ & _ & ->). left. exact Hin.
    - apply lrelack_inv in H. destruct H as (_ & _ & _ & ->).
      destruct (acked s q0 t <? i)%nat; left; exact Hin.
    - apply lcommitl_inv in H. cbv zeta in H. destruct H as (_ & _ & _ & _ & _ & ->).
      cbn [add_cpt cpts] in Hin. destruct Hin as [Hin|Hin].
      + inversion Hin; subst. right. exists c. auto.
      + left. destruct (is_prefix _ _ && _)%bool; exact Hin.
    - apply lcommitf_inv in H. destruct H as (_ & _ & _ & _ & ->). left. exact Hin.
    - apply llogimage_inv in H. destruct H as (_ & ->). left. exact Hin.
    - apply llogfsync_inv in H. destruct H as (img & rest & _ & _ & _ & ->). left. exact Hin.
  Qed.

  Lemma cpts_mono s l s' T k : lrule l s = Some s' -> In (T, k) (cpts s) -> In (T, k) (cpts s').
  Proof.
    intros H Hin. destruct l as [l0|c x|n m|q0 i|q0 t i|c k0|n k0|n|n].
    - destruct (lel_inv _ _ _ _ _ H) as (e' & He & Hel & Hs).
      destruct l0 as [n|n|n|n t0|n c t0|n t0|n t0|c n|c|n t0|n|n|n]; try (subst s'; exact Hin);
        [destruct Hs as [-> _]|destruct Hs as [_ ->]]; exact Hin.
    - apply lpropose_inv in H. destruct H as (_ & ->). exact Hin.
    - apply ladopt_inv in H. cbv zeta in H. destruct H as (_ & _ & _ & _ & _ & _ & ->). exact Hin.
    - apply lmkack_inv in H. cbv zeta in H. destruct H as (_ & _ & _ & _ & ->). exact Hin.
    - apply lrelack_inv in H. destruct H as (_ & _ & _ & ->).
      destruct (acked s q0 t <? i)%nat; exact Hin.
    - apply lcommitl_inv in H. cbv zeta in H. destruct H as (_ & _ & _ & _ & _ & ->).
      cbn [add_cpt cpts]. right. destruct (is_prefix _ _ && _)%bool; exact Hin.
    - apply lcommitf_inv in H. destruct H as (_ & _ & _ & _ & ->). exact Hin.
    - apply llogimage_inv in H. destruct H as (_ & ->). exact Hin.
    - apply llogfsync_inv in H. destruct H as (img & rest & _ & _ & _ & ->). exact Hin.
  Qed.
  (* which steps change a node's commit index *)
  Lemma commit_changes s l s' n : lrule l s = Some s' ->
    l_commit (ln s' n) = l_commit (ln s n) \/ l = LEl (LCrash n) \/
    (exists k, l = LCommitL n k /\ l_commit (ln s' n) = k) \/
    (exists k, l = LCommitF n k /\ l_commit (ln s' n) = k).
  Proof.
    intros H. destruct l as [l0|c x|n0 m|q0 i|q0 t i|c k0|n0 k0|n0|n0].
    - destruct (lel_inv _ _ _ _ _ H) as (e' & He & Hel & Hs).
      destruct l0 as [n0|n0|n0|n0 t0|n0 c t0|n0 t0|n0 t0|c n0|c|n0 t0|n0|n0|n0]; try (subst s'; left; reflexivity).
      + destruct Hs as [-> _]. left. reflexivity.
      + destruct Hs as [_ ->]. left. cbn. destruct (N.eqb_spec n c) as [->|]; reflexivity.
      + subst s'. cbn. destruct (N.eqb_spec n n0) as [->|]; [right; left; reflexivity|left; reflexivity].
    - apply lpropose_inv in H. destruct H as (_ & ->). left. cbn. destruct (N.eqb_spec n c) as [->|]; reflexivity.
    - apply ladopt_inv in H. cbv zeta in H. destruct H as (_ & _ & _ & _ & _ & _ & ->). left. cbn.
      destruct (N.eqb_spec n n0) as [->|]; reflexivity.
    - apply lmkack_inv in H. cbv zeta in H. destruct H as (_ & _ & _ & _ & ->). left. cbn.
      destruct (N.eqb_spec n q0) as [->|]; reflexivity.
    - apply lrelack_inv in H. destruct H as (_ & _ & _ & ->). left. destruct (acked s q0 t <? i)%nat; reflexivity.
    - apply lcommitl_inv in H. cbv zeta in H. destruct H as (_ & _ & _ & _ & _ & ->).
      destruct (N.eqb_spec n c) as [->|Hne].
      + right. right. left. exists k0. split; [reflexivity|].
        destruct (is_prefix _ _ && _)%bool; cbn; rewrite N.eqb_refl; reflexivity.
      + left. apply N.eqb_neq in Hne. destruct (is_prefix _ _ && _)%bool; cbn; rewrite Hne; reflexivity.
    - apply lcommitf_inv in H. destruct H as (_ & _ & _ & _ & ->). cbn.
      destruct (N.eqb_spec n n0) as [->|]; [|left; reflexivity]. right. right. right. exists k0. auto.
    - apply llogimage_inv in H. destruct H as (_ & ->). left. cbn. destruct (N.eqb_spec n n0) as [->|]; reflexivity.
    - apply llogfsync_inv in H. destruct H as (img & rest & _ & _ & _ & ->). left. cbn.
      destruct (N.eqb_spec n n0) as [->|]; reflexivity.
  Qed.

  Record KInv (s : lst) : Prop := {
    (* a commit point is an own-term index of its leader log acknowledged by a quorum *)
    k_cpt : forall T k, In (T, k) (cpts s) ->
        own (llog s) T k /\ exists Q, quorum inc out Q = true /\ forall z, In z Q -> (k <= acked s z T)%nat;
    (* a commit index is covered by a commit point the log agrees with *)
    k_commit : forall n, (0 < l_commit (ln s n))%nat ->
        exists T k, In (T, k) (cpts s) /\ (l_commit (ln s n) <= k)%nat /\
          firstn (l_commit (ln s n)) (l_log (ln s n)) = firstn (l_commit (ln s n)) (llog s T)
  }.

  Lemma KInv_init : KInv linit.
  Proof. constructor; cbn; intros; [contradiction|lia]. Qed.

  Theorem KInv_step s l s' : lreachable s -> KInv s -> lrule l s = Some s' -> KInv s'.
  Proof.
    intros Hr HK H.
    pose proof (lreachable_LInv inc out inc_nonempty Hmulti s Hr) as HL.
    pose proof (llog_grows inc out inc_nonempty Hmulti s l s' Hr HL H) as Hgr.
    constructor.
    - intros T k Hin. destruct (cpts_step _ _ _ _ _ H Hin) as [Hold|(c & -> & ->)].
      + destruct (k_cpt s HK T k Hold) as (Ho & Q & HQ & HQa). split; [eapply own_grows; eassumption|].
        exists Q. split; [exact HQ|]. intros z Hz. pose proof (HQa z Hz). pose proof (acked_mono s l s' z T H). lia.
      + pose proof H as H0. apply lcommitl_inv in H0. cbv zeta in H0.
        destruct H0 as (Hl & Hk & Hc & Ht & Hq & Es').
        assert (Ell : llog s' = llog s) by (rewrite Es'; destruct (is_prefix _ _ && _)%bool; reflexivity).
        rewrite Ell. split.
        * unfold own. rewrite <- (li_B s HL c Hl). split; [lia|exact Ht].
        * exists (supporters inc out s c k). split; [exact Hq|]. intros z Hz.
          unfold supporters in Hz. apply filter_In in Hz. destruct Hz as [_ Hz].
          destruct (N.eq_dec z c) as [Ezc|Hne].
          -- subst z. rewrite N.eqb_refl in Hz. rewrite Es'. rewrite Hz. cbn [andb].
             destruct (acked s c (p_term (nodes (el s) c)) <? k)%nat eqn:E; cbn.
             ++ rewrite !N.eqb_refl. cbn. lia.
             ++ apply Nat.ltb_ge in E. exact E.
          -- apply N.eqb_neq in Hne. rewrite Hne in Hz.
             apply Nat.leb_le in Hz. pose proof (acked_mono s _ s' z (p_term (nodes (el s) c)) H). lia.
    - intros n Hpos.
      assert (Hkeep : l <> LEl (LCrash n) -> l_commit (ln s' n) = l_commit (ln s n) ->
                exists T k, In (T, k) (cpts s') /\ (l_commit (ln s' n) <= k)%nat /\
                  firstn (l_commit (ln s' n)) (l_log (ln s' n)) = firstn (l_commit (ln s' n)) (llog s' T)).
      { intros Hnc Ec. rewrite Ec in *. destruct (k_commit s HK n Hpos) as (T & k & Hin & Hk & Ef).
        exists T, k. split; [eapply cpts_mono; eassumption|]. split; [exact Hk|].
        destruct (commit_prefix_immutable inc out inc_nonempty Hmulti s l s' n Hr H Hnc) as [_ Ep].
        rewrite Ep, Ef. destruct (k_cpt s HK T k Hin) as ([[_ Hlen] _] & _).
        destruct (Hgr T) as [suf ->]. rewrite firstn_app_le by lia. reflexivity. }
      destruct (commit_changes s l s' n H) as [Ec|[->|[(k0 & -> & Ek)|(k0 & -> & Ek)]]].
      + destruct (llabel_eq_dec l (LEl (LCrash n))) as [->|Hnc]; [|apply Hkeep; assumption].
        exfalso. destruct (crash_falls_back inc out s n s' H) as (E0 & _). lia.
      + exfalso. destruct (crash_falls_back inc out s n s' H) as (E0 & _). lia.
      + pose proof H as H0. apply lcommitl_inv in H0. cbv zeta in H0.
        destruct H0 as (Hl & Hk & Hc & Ht & Hq & Es').
        assert (Ell : llog s' = llog s) by (rewrite Es'; destruct (is_prefix _ _ && _)%bool; reflexivity).
        assert (Elog : l_log (ln s' n) = l_log (ln s n)).
        { rewrite Es'. destruct (is_prefix _ _ && _)%bool; cbn; rewrite N.eqb_refl; reflexivity. }
        exists (p_term (nodes (el s) n)), k0. rewrite Ek, Ell, Elog.
        split; [rewrite Es'; left; reflexivity|]. split; [lia|]. rewrite (li_B s HL n Hl). reflexivity.
      + pose proof H as H0. apply lcommitf_inv in H0.
        destruct H0 as (_ & Hk & Hc & (T & k1 & Hin & Hk1 & suf & Hsuf) & Es').
        assert (Ell : llog s' = llog s) by (rewrite Es'; reflexivity).
        assert (Elog : l_log (ln s' n) = l_log (ln s n)) by (rewrite Es'; cbn; rewrite N.eqb_refl; reflexivity).
        exists T, k1. rewrite Ek, Ell, Elog. split; [rewrite Es'; exact Hin|]. split; [exact Hk1|].
        rewrite Hsuf. rewrite firstn_app_le by (rewrite firstn_length; lia).
        rewrite firstn_firstn_le by lia. reflexivity.
  Qed.

  Theorem lreachable_KInv s : lreachable s -> KInv s.
  Proof.
    induction 1 as [|s l s' Hr IH Hstep]; [apply KInv_init|]. eapply KInv_step; eassumption.
  Qed.
End KInv.

(* ------------------------------------------------------------------ *)
(** * C03 leader completeness, C04 commit rule, C01 state-machine safety *)

Inductive lsteps (inc out : list N) : lst -> lst -> Prop :=
| lsteps_refl : forall s, lsteps inc out s s
| lsteps_step : forall s s1 l s2, lsteps inc out s s1 -> lrule inc out l s1 = Some s2 -> lsteps inc out s s2.

Section Safety.
  Variables (inc out : list N).
  Hypothesis inc_nonempty : inc <> [].
  Hypothesis Hmulti : no_single_quorum inc out.
  Notation lrule := (lrule inc out).
  Notation lreachable := (lreachable inc out).
  Notation lsteps := (lsteps inc out).
  Notation Block := (Block inc out).

  Lemma cpt_not_blocked s T k : lreachable s -> In (T, k) (cpts s) -> ~ Block s T k.
  Proof.
    intros Hr Hin (Q' & HQ' & HB).
    destruct (k_cpt inc out s (lreachable_KInv inc out inc_nonempty Hmulti s Hr) T k Hin) as (_ & Q & HQ & HQa).
    destruct (has_quorum_intersect inc out Q Q' HQ HQ') as [Hi _].
    destruct (Hi inc_nonempty) as (v & _ & Hv1 & Hv2).
    destruct (HB v Hv2) as [_ Hnp]. apply Hnp. left. apply HQa. exact Hv1.
  Qed.

  Lemma cpt_own s T k : lreachable s -> In (T, k) (cpts s) -> own (llog s) T k.
  Proof.
    intros Hr Hin.
    destruct (k_cpt inc out s (lreachable_KInv inc out inc_nonempty Hmulti s Hr) T k Hin) as (Ho & _). exact Ho.
  Qed.

  (* C03: every leader of a term >= T has the entries of every commit point of T *)
  Theorem leader_completeness s T k t : lreachable s -> In (T, k) (cpts s) -> T <= t -> llog s t <> [] ->
    (k <= length (llog s t))%nat /\ firstn k (llog s t) = firstn k (llog s T).
  Proof.
    intros Hr Hin HTt Hne. pose proof (cpt_own s T k Hr Hin) as Ho.
    destruct (N.eq_dec T t) as [<-|Hnt]; [destruct Ho as [[_ Hk] _]; split; [exact Hk|reflexivity]|].
    destruct (n_lead inc out s (lreachable_NInv inc out inc_nonempty Hmulti s Hr) T k t Ho) as [Ha|Hb];
      [lia|exact Hne|exact Ha|].
    exfalso. eapply cpt_not_blocked; eassumption.
  Qed.

  Theorem leader_completeness_roles s T k c : lreachable s -> In (T, k) (cpts s) ->
    p_role (nodes (el s) c) = PL -> T <= p_term (nodes (el s) c) ->
    (k <= length (l_log (ln s c)))%nat /\ firstn k (l_log (ln s c)) = firstn k (llog s T).
  Proof.
    intros Hr Hin Hrl HT. pose proof (lreachable_el _ _ _ Hr) as Hre.
    assert (Hl : own_term_leader s c = true).
    { apply own_term_leader_spec. split; [exact Hrl|]. apply (leader_up inc out (el s) Hre c Hrl). }
    rewrite (li_B s (lreachable_LInv inc out inc_nonempty Hmulti s Hr) c Hl).
    apply leader_completeness; [exact Hr|exact Hin|exact HT|].
    apply (leader_llog_nonempty inc out inc_nonempty Hmulti s Hr _ c). apply (leader_recorded inc out); assumption.
  Qed.

  (* F5: commit points are mutually consistent *)
  Theorem commit_points_consistent s T1 k1 T2 k2 : lreachable s ->
    In (T1, k1) (cpts s) -> In (T2, k2) (cpts s) ->
    firstn (Nat.min k1 k2) (llog s T1) = firstn (Nat.min k1 k2) (llog s T2).
  Proof.
    intros Hr H1 H2.
    assert (Hne : forall T k, In (T, k) (cpts s) -> llog s T <> []).
    { intros T k Hin. destruct (cpt_own s T k Hr Hin) as [[Ha Hb] _]. destruct (llog s T); [cbn in Hb; lia|discriminate]. }
    destruct (N.le_ge_cases T1 T2) as [Hle|Hle].
    - destruct (leader_completeness s T1 k1 T2 Hr H1 Hle (Hne _ _ H2)) as [_ E].
      symmetry. eapply firstn_eq_le; [|exact E]. lia.
    - destruct (leader_completeness s T2 k2 T1 Hr H2 Hle (Hne _ _ H1)) as [_ E].
      eapply firstn_eq_le; [|exact E]. lia.
  Qed.

  (* F6 *)
  Theorem follower_commit_bound s n : lreachable s -> (0 < l_commit (ln s n))%nat ->
    exists T k, In (T, k) (cpts s) /\ (l_commit (ln s n) <= k)%nat /\
      firstn (l_commit (ln s n)) (l_log (ln s n)) = firstn (l_commit (ln s n)) (llog s T).
  Proof. intros Hr. apply (k_commit inc out s (lreachable_KInv inc out inc_nonempty Hmulti s Hr)). Qed.

  (* F7: the entries of a commit point are in the durable log of a quorum, at all times *)
  Theorem durable_quorum s T k : lreachable s -> In (T, k) (cpts s) ->
    exists Q, quorum inc out Q = true /\
      forall z, In z Q -> (k <= length (l_dlog (ln s z)))%nat /\ firstn k (l_dlog (ln s z)) = firstn k (llog s T).
  Proof.
    intros Hr Hin.
    destruct (k_cpt inc out s (lreachable_KInv inc out inc_nonempty Hmulti s Hr) T k Hin) as (Ho & Q & HQ & HQa).
    exists Q. split; [exact HQ|]. intros z Hz.
    destruct (n_acked inc out s (lreachable_NInv inc out inc_nonempty Hmulti s Hr) T k z Ho (HQa z Hz)) as [Ha|Hb];
      [exact Ha|]. exfalso. eapply cpt_not_blocked; eassumption.
  Qed.

  (* every committed entry of a node is the entry of a commit point *)
  Lemma committed_entry s n j : lreachable s -> (1 <= j)%nat -> (j <= l_commit (ln s n))%nat ->
    exists T k, In (T, k) (cpts s) /\ (j <= k)%nat /\ nth_error (l_log (ln s n)) (j - 1) = nth_error (llog s T) (j - 1).
  Proof.
    intros Hr Hj Hc. destruct (follower_commit_bound s n Hr) as (T & k & Hin & Hk & Ef); [lia|].
    exists T, k. split; [exact Hin|]. split; [lia|].
    apply nth_error_firstn_eq with (k := l_commit (ln s n)); [lia|exact Ef].
  Qed.

  (* C01: two nodes never commit different entries at the same index *)
  Theorem state_machine_safety s a b j : lreachable s -> (1 <= j)%nat ->
    (j <= l_commit (ln s a))%nat -> (j <= l_commit (ln s b))%nat ->
    nth_error (l_log (ln s a)) (j - 1) = nth_error (l_log (ln s b)) (j - 1).
  Proof.
    intros Hr Hj Ha Hb.
    destruct (committed_entry s a j Hr Hj Ha) as (Ta & ka & Hina & Hka & Ea).
    destruct (committed_entry s b j Hr Hj Hb) as (Tb & kb & Hinb & Hkb & Eb).
    rewrite Ea, Eb. apply nth_error_firstn_eq with (k := Nat.min ka kb); [lia|].
    apply commit_points_consistent; assumption.
  Qed.

  Lemma lsteps_reachable s s' : lreachable s -> lsteps s s' -> lreachable s'.
  Proof. intros Hr Hs. induction Hs as [|s s1 l s2 _ IH Hstep]; [exact Hr|]. eapply lreach_step; [apply IH; exact Hr|exact Hstep]. Qed.

  (* commit points and their entries are permanent *)
  Lemma lsteps_cpt s s' T k : lreachable s -> lsteps s s' -> In (T, k) (cpts s) ->
    In (T, k) (cpts s') /\ firstn k (llog s' T) = firstn k (llog s T).
  Proof.
    intros Hr Hs Hin. induction Hs as [|s s1 l s2 Hs IH Hstep]; [auto|].
    destruct (IH Hr Hin) as [Hin1 E1]. pose proof (lsteps_reachable s s1 Hr Hs) as Hr1.
    split; [eapply cpts_mono; eassumption|]. rewrite <- E1.
    destruct (llog_grows inc out inc_nonempty Hmulti s1 l s2 Hr1 (lreachable_LInv inc out inc_nonempty Hmulti s1 Hr1) Hstep T) as [suf ->].
    destruct (cpt_own s1 T k Hr1 Hin1) as [[_ Hk] _]. apply firstn_app_le. exact Hk.
  Qed.

  (* C01, history form: whatever a node has ever reported committed at an index is what
     any node (the same one after crashes and restarts included) reports there later *)
  Theorem state_machine_safety_history s s' a b j : lreachable s -> lsteps s s' -> (1 <= j)%nat ->
    (j <= l_commit (ln s a))%nat -> (j <= l_commit (ln s' b))%nat ->
    nth_error (l_log (ln s a)) (j - 1) = nth_error (l_log (ln s' b)) (j - 1).
  Proof.
    intros Hr Hs Hj Ha Hb. pose proof (lsteps_reachable s s' Hr Hs) as Hr'.
    destruct (committed_entry s a j Hr Hj Ha) as (Ta & ka & Hina & Hka & Ea).
    destruct (committed_entry s' b j Hr' Hj Hb) as (Tb & kb & Hinb & Hkb & Eb).
    destruct (lsteps_cpt s s' Ta ka Hr Hs Hina) as [Hina' Ef].
    rewrite Ea, Eb. rewrite <- (nth_error_firstn_eq _ _ ka (j - 1) ltac:(lia) Ef).
    apply nth_error_firstn_eq with (k := Nat.min ka kb); [lia|].
    apply commit_points_consistent; assumption.
  Qed.
  (* C04: a commit point is only ever created by a leader commit: an index of the
     leader's own term in its log, supported by a quorum in which every follower has
     an acknowledgement >= k recorded for that term and the leader counts itself only
     when its durable log covers the index *)
  Theorem commit_point_rule s l s' T k : lrule l s = Some s' ->
    In (T, k) (cpts s') -> ~ In (T, k) (cpts s) ->
    exists c, l = LCommitL c k /\
      p_role (nodes (el s) c) = PL /\ p_up (nodes (el s) c) = true /\ p_term (nodes (el s) c) = T /\
      (1 <= k <= length (l_log (ln s c)))%nat /\ term_at (l_log (ln s c)) k = T /\
      exists Q, quorum inc out Q = true /\ forall q, In q Q ->
        (q = c /\ exists suf, l_dlog (ln s c) = firstn k (l_log (ln s c)) ++ suf) \/
        (q <> c /\ (k <= acked s q T)%nat).
  Proof.
    intros H Hin Hnin. destruct (cpts_step inc out s l s' T k H Hin) as [Hold|(c & -> & ->)]; [contradiction|].
    exists c. split; [reflexivity|]. apply lcommitl_inv in H. cbv zeta in H.
    destruct H as (Hl & Hk & Hc & Ht & Hq & _). apply own_term_leader_spec in Hl. destruct Hl as [Hrl Hup].
    repeat split; try assumption; try lia.
    exists (supporters inc out s c k). split; [exact Hq|]. intros q Hq0.
    unfold supporters in Hq0. apply filter_In in Hq0. destruct Hq0 as [_ Hq0].
    destruct (N.eq_dec q c) as [Eqc|Hne].
    - subst q. rewrite N.eqb_refl in Hq0. left. split; [reflexivity|]. apply is_prefix_spec. exact Hq0.
    - right. split; [exact Hne|]. apply N.eqb_neq in Hne. rewrite Hne in Hq0. apply Nat.leb_le. exact Hq0.
  Qed.

  (* C04: a commit index only rises by a leader commit (which creates the commit point
     (term, k)) or by a commit up to an existing commit point the log agrees with *)
  Theorem commit_raise_rule s l s' n : lrule l s = Some s' ->
    (l_commit (ln s n) < l_commit (ln s' n))%nat ->
    (exists k, l = LCommitL n k /\ l_commit (ln s' n) = k /\ In (p_term (nodes (el s) n), k) (cpts s')) \/
    (exists k T k1, l = LCommitF n k /\ l_commit (ln s' n) = k /\ In (T, k1) (cpts s) /\ (k <= k1)%nat /\
                    firstn k (l_log (ln s n)) = firstn k (llog s T)).
  Proof.
    intros H Hlt. destruct (commit_changes inc out s l s' n H) as [Ec|[->|[(k0 & -> & Ek)|(k0 & -> & Ek)]]].
    - lia.
    - destruct (crash_falls_back inc out s n s' H) as (E0 & _). lia.
    - left. exists k0. split; [reflexivity|]. split; [exact Ek|].
      apply lcommitl_inv in H. cbv zeta in H. destruct H as (_ & _ & _ & _ & _ & ->). left. reflexivity.
    - right. apply lcommitf_inv in H. destruct H as (_ & Hk & _ & (T & k1 & Hin & Hk1 & suf & Hsuf) & _).
      exists k0, T, k1. repeat split; try assumption.
      rewrite Hsuf. rewrite firstn_app_le by (rewrite firstn_length; lia).
      rewrite firstn_firstn_le by lia. reflexivity.
  Qed.

  (* C04: an acknowledgement is only recorded while the durable log of the node covers it *)
  Theorem ack_record_rule s l s' q t : lreachable s -> lrule l s = Some s' ->
    (acked s q t < acked s' q t)%nat ->
    (acked s' q t <= length (llog s t))%nat /\
    (exists suf, l_dlog (ln s q) = firstn (acked s' q t) (llog s t) ++ suf) /\
    (l = LRelAck q t (acked s' q t) \/
     (l = LCommitL q (acked s' q t) /\ t = p_term (nodes (el s) q) /\ p_role (nodes (el s) q) = PL)).
  Proof.
    intros Hr H Hlt. destruct l as [l0|c x|n m|q0 i|q0 t0 i|c k0|n k0|n|n].
    - destruct (lel_inv _ _ _ _ _ H) as (e' & He & Hel & Hs). exfalso.
      destruct l0 as [n|n|n|n t0|n c t0|n t0|n t0|c n|c|n t0|n|n|n]; try (subst s'; cbn in Hlt; lia);
        [destruct Hs as [-> _]|destruct Hs as [_ ->]]; cbn in Hlt; lia.
    - apply lpropose_inv in H. destruct H as (_ & ->). cbn in Hlt. lia.
    - apply ladopt_inv in H. cbv zeta in H. destruct H as (_ & _ & _ & _ & _ & _ & ->). cbn in Hlt. lia.
    - apply lmkack_inv in H. cbv zeta in H. destruct H as (_ & _ & _ & _ & ->). cbn in Hlt. lia.
    - apply lrelack_inv in H. destruct H as (_ & Hcov & Hi & ->).
      destruct (acked s q0 t0 <? i)%nat; [|lia]. cbn in Hlt |- *.
      destruct ((q =? q0) && (t =? t0)) eqn:E; [|lia].
      apply andb_prop in E. destruct E as [E1 E2]. apply N.eqb_eq in E1, E2. subst. auto.
    - apply lcommitl_inv in H. cbv zeta in H. destruct H as (Hl & Hk & _ & _ & _ & ->).
      destruct (is_prefix (firstn k0 (l_log (ln s c))) (l_dlog (ln s c)) && (acked s c (p_term (nodes (el s) c)) <? k0)%nat) eqn:Eb;
        [|cbn in Hlt; lia].
      apply andb_prop in Eb. destruct Eb as [Eb _]. apply is_prefix_spec in Eb. cbn in Hlt |- *.
      destruct ((q =? c) && (t =? p_term (nodes (el s) c))) eqn:E; [|lia].
      apply andb_prop in E. destruct E as [E1 E2]. apply N.eqb_eq in E1, E2. subst.
      rewrite (li_B s (lreachable_LInv inc out inc_nonempty Hmulti s Hr) c Hl) in Hk, Eb.
      apply own_term_leader_spec in Hl. destruct Hl as [Hrl _]. auto 10.
    - apply lcommitf_inv in H. destruct H as (_ & _ & _ & _ & ->). cbn in Hlt. lia.
    - apply llogimage_inv in H. destruct H as (_ & ->). cbn in Hlt. lia.
    - apply llogfsync_inv in H. destruct H as (img & rest & _ & _ & _ & ->). cbn in Hlt. lia.
  Qed.
End Safety.

(* ------------------------------------------------------------------ *)
(** * Why the durable log must never be ahead of the durable term

   With the fsync rule of the log layer WITHOUT the guard "every entry of the image
   has a term <= the durable term" (the rule as first written), state-machine safety
   is false: node 2 learns term 2 (volatile only), replicates and persists the log of
   the leader of term 2, acknowledges, the leader commits index 2 with that
   acknowledgement; node 2 crashes, restarts at its durable term 1, adopts the stale
   log of the leader of term 1, is elected in term 3 with that log and commits a
   different entry at index 2. *)

Definition lrule_unguarded_fsync (inc out : list N) (l : llabel) (s : lst) : option lst :=
  match l with
  | LLogFsync n =>
      let x := ln s n in
      match l_imgs x with
      | img :: rest =>
          if p_up (nodes (el s) n)
          then Some (set_ln s n (mkLN (l_log x) img rest (l_commit x) (l_acks x)))
          else None
      | [] => None
      end
  | _ => lrule inc out l s
  end.

Fixpoint lrun_unguarded_fsync (inc out : list N) (ls : list llabel) (s : lst) : option lst :=
  match ls with
  | [] => Some s
  | l :: rest => match lrule_unguarded_fsync inc out l s with
                 | Some s' => lrun_unguarded_fsync inc out rest s' | None => None end
  end.

Definition stale_term_attack : list llabel :=
  [ (* 3 leads term 1 with 2's vote, proposes an entry it never persists, crashes *)
    LEl (LCampaign 3); LEl (LImage 3); LEl (LFsync 3); LEl (LReleaseReq 3 1);
    LEl (LGrant 2 3 1); LEl (LImage 2); LEl (LFsync 2); LEl (LReleaseGrant 2 1);
    LEl (LRecvGrant 3 2); LEl (LBecomeLeader 3); LLogImage 3; LLogFsync 3;
    LPropose 3 9; LEl (LCrash 3); LEl (LRestart 3);
    (* 1 catches up with [(1,0)] at term 1, then leads term 2 with 3's vote *)
    LEl (LCampaign 1); LAdopt 1 1; LEl (LCampaign 1); LEl (LImage 1); LEl (LFsync 1); LEl (LReleaseReq 1 2);
    LEl (LGrant 3 1 2); LEl (LImage 3); LEl (LFsync 3); LEl (LReleaseGrant 3 2);
    LEl (LRecvGrant 1 3); LEl (LBecomeLeader 1); LLogImage 1; LLogFsync 1;
    (* 2 learns term 2 (volatile only), replicates, persists the log, acknowledges; 1 commits *)
    LEl (LUpdateTerm 2 2); LAdopt 2 2; LMkAck 2 2%nat; LLogImage 2; LLogFsync 2; LRelAck 2 2 2%nat;
    LCommitL 1 2%nat;
    (* 2 crashes: back to durable term 1, adopts the stale term-1 leader log *)
    LEl (LCrash 2); LEl (LRestart 2); LAdopt 2 2;
    (* 2 leads term 3 with 3's vote and commits index 3 *)
    LEl (LCampaign 2); LEl (LCampaign 2); LEl (LImage 2); LEl (LFsync 2); LEl (LReleaseReq 2 3);
    LEl (LGrant 3 2 3); LEl (LImage 3); LEl (LFsync 3); LEl (LReleaseGrant 3 3);
    LEl (LRecvGrant 2 3); LEl (LBecomeLeader 2); LLogImage 2; LLogFsync 2;
    LAdopt 3 3; LMkAck 3 3%nat; LLogImage 3; LLogFsync 3; LRelAck 3 3 3%nat; LCommitL 2 3%nat ].

Lemma unguarded_fsync_unsafe :
  exists s, lrun_unguarded_fsync [1;2;3] [] stale_term_attack linit = Some s /\
    l_commit (ln s 1) = 2%nat /\ l_commit (ln s 2) = 3%nat /\
    nth_error (l_log (ln s 1)) 1 = Some (2, 0) /\ nth_error (l_log (ln s 2)) 1 = Some (1, 9).
Proof. eexists. split; [vm_compute; reflexivity|]. vm_compute. repeat split. Qed.

(* the guarded rule rejects that execution (at node 2's fsync of a term-2 log under durable term 1) *)
Lemma guarded_fsync_rejects_attack : lrun [1;2;3] [] stale_term_attack linit = None.
Proof. vm_compute. reflexivity. Qed.

(* the election restriction of P, by construction of the grant rule *)
Lemma grant_restricted inc out n c t s s' : lrule inc out (LEl (LGrant n c t)) s = Some s' ->
  up_to_date (clog s c t) (l_log (ln s n)) = true.
Proof. intros H. destruct (lel_inv inc out _ _ _ H) as (e & _ & _ & _ & Hu). exact Hu. Qed.
