(* Stage L3 of the log-layer proofs: leader completeness (C03), the commit rule
   (C04) and state-machine safety (C01) for the abstract protocol P/Log.v. *)
From RV Require Import Base.Prelude M.Quorum M.QuorumProofs P.Election P.ElectionProofs P.Log P.LogProofs.

Local Open Scope N_scope.

(* ------------------------------------------------------------------ *)
(** * Election layer: durable terms, votes *)

(* q's vote for c in term t exists in some form: volatile, handed out, or durable *)
Definition Vote (e : pst) (q c t : N) : Prop :=
  In (t, c) (p_imgs (nodes e q) ++ [vol (nodes e q)]) \/ voted e q t = Some c.

Lemma chain_in_le a l y x : chain a (l ++ [y]) -> In x (l ++ [y]) -> fst x <= fst y.
Proof.
  revert a. induction l as [|b r IH]; intros a Hc Hin; cbn in *.
  - destruct Hin as [<-|[]]. lia.
  - destruct Hc as [_ Hc]. destruct Hin as [<-|Hin]; [|eapply IH; eassumption].
    pose proof (chain_ends _ _ _ Hc) as H. unfold le_tv in H. lia.
Qed.

Section ElectionFacts2.
  Variables (inc out : list N).
  Notation prule := (prule inc out).
  Notation Inv := (Inv inc out).

  Lemma dterm_le_term e n : Inv e -> p_dterm (nodes e n) <= p_term (nodes e n).
  Proof.
    intros HI. pose proof (chain_ends _ _ _ (inv_chain _ _ _ HI n)) as H.
    unfold le_tv, dur, vol in H. cbn in H. lia.
  Qed.

  Lemma voted_le_dterm e q t c : Inv e -> voted e q t = Some c -> t <= p_dterm (nodes e q).
  Proof. intros HI Hv. destruct (inv_voted_dur _ _ _ HI _ _ _ Hv) as [_ H]. lia. Qed.

  Lemma Vote_term_le e q c t : Inv e -> Vote e q c t -> t <= p_term (nodes e q).
  Proof.
    intros HI [H|H].
    - apply (chain_in_le _ _ _ _ (inv_chain _ _ _ HI q)) in H. exact H.
    - pose proof (voted_le_dterm _ _ _ _ HI H). pose proof (dterm_le_term e q HI). lia.
  Qed.

  Lemma Vote_other e q c t : Inv e -> Vote e q c t -> c <> 0 -> q <> c -> voted e c t = Some c.
  Proof.
    intros HI [H|H] Hc Hne.
    - eapply (inv_pending _ _ _ HI); eauto.
    - eapply (inv_other _ _ _ HI); eauto.
  Qed.

  Lemma Vote_set_node e k p' q c t :
    Vote (set_node e k p') q c t <->
    (if q =? k then In (t, c) (p_imgs p' ++ [vol p']) \/ voted e k t = Some c else Vote e q c t).
  Proof.
    unfold Vote. cbn. destruct (N.eqb_spec q k) as [->|Hne]; reflexivity.
  Qed.

  Lemma dterm_mono e l e' n : Inv e -> prule l e = Some e' -> p_dterm (nodes e n) <= p_dterm (nodes e' n).
  Proof.
    intros HI H.
    destruct l as [k|k|k|k t|k c t|k t|k t|c k|c|k t|k|k|k]; cbn [Election.prule] in H.
    3:{ destruct (p_imgs (nodes e k)) as [|[t c] rest] eqn:Ei; [discriminate|].
        destruct (p_up (nodes e k)); [|discriminate]. inversion H; subst; clear H.
        assert (En : forall x, nodes (if c =? 0 then set_node e k (mkPN true (p_term (nodes e k)) (p_vote (nodes e k)) (p_role (nodes e k)) (p_granted (nodes e k)) t c rest)
                      else set_voted (set_node e k (mkPN true (p_term (nodes e k)) (p_vote (nodes e k)) (p_role (nodes e k)) (p_granted (nodes e k)) t c rest)) k t c) x
                 = nodes (set_node e k (mkPN true (p_term (nodes e k)) (p_vote (nodes e k)) (p_role (nodes e k)) (p_granted (nodes e k)) t c rest)) x)
          by (intros; destruct (c =? 0); reflexivity).
        rewrite En. cbn. destruct (N.eqb_spec n k) as [->|Hne]; [|lia]. cbn.
        pose proof (inv_chain _ _ _ HI k) as Hc. rewrite Ei in Hc. cbn in Hc. destruct Hc as [Hc _].
        unfold le_tv, dur in Hc. cbn in Hc. lia. }
    all: repeat match type of H with
             | match ?x with _ => _ end = _ => destruct x eqn:?; try discriminate
             | (if ?x then _ else _) = _ => destruct x eqn:?; try discriminate
             end;
      inversion H; subst; clear H; cbn;
      repeat match goal with
             | |- context [?a =? ?b] => destruct (N.eqb_spec a b); subst; cbn
             end; lia.
  Qed.
  (* votes only come from grants and campaigns *)
  Lemma Vote_step e l e' q c t : Inv e -> prule l e = Some e' -> Vote e' q c t -> c <> 0 ->
    Vote e q c t \/ l = LGrant q c t \/ (l = LCampaign q /\ c = q /\ t = p_term (nodes e q) + 1).
  Proof.
    intros HI H HV Hc0.
    assert (Hl : forall x, In x (p_imgs (nodes e q)) -> In x (p_imgs (nodes e q) ++ [vol (nodes e q)]))
      by (intros; apply in_or_app; left; assumption).
    assert (Hr : In (vol (nodes e q)) (p_imgs (nodes e q) ++ [vol (nodes e q)]))
      by (apply in_or_app; right; left; reflexivity).
    destruct l as [k|k|k|k t0|k c0 t0|k t0|k t0|c0 k|c0|k t0|k|k|k]; cbn [Election.prule] in H.
    - (* campaign *)
      destruct (p_up (nodes e k) && negb (k =? 0)); [|discriminate]. inversion H; subst; clear H.
      apply Vote_set_node in HV. destruct (N.eqb_spec q k) as [->|Hne]; [|auto].
      cbn in HV. destruct HV as [HV|HV]; [|left; right; exact HV].
      apply in_app_iff in HV. destruct HV as [HV|[HV|[]]]; [left; left; auto|].
      unfold vol in HV. cbn in HV. inversion HV; subst. right. right. auto.
    - (* image *)
      destruct (p_up (nodes e k)); [|discriminate]. inversion H; subst; clear H.
      apply Vote_set_node in HV. destruct (N.eqb_spec q k) as [->|Hne]; [|auto].
      cbn in HV. left. destruct HV as [HV|HV]; [|right; exact HV]. left.
      apply in_app_iff in HV. destruct HV as [HV|[HV|[]]].
      + apply in_app_iff in HV. destruct HV as [HV|[HV|[]]]; [auto|]. unfold vol. rewrite <- HV. exact Hr.
      + unfold vol in HV. cbn in HV. rewrite <- HV. exact Hr.
    - (* fsync *)
      destruct (p_imgs (nodes e k)) as [|[t1 c1] rest] eqn:Ei; [discriminate|].
      destruct (p_up (nodes e k)); [|discriminate]. inversion H; subst; clear H.
      set (p' := mkPN true (p_term (nodes e k)) (p_vote (nodes e k)) (p_role (nodes e k))
                      (p_granted (nodes e k)) t1 c1 rest) in *.
      assert (HV' : (if q =? k then In (t, c) (p_imgs p' ++ [vol p']) \/ voted e k t = Some c else Vote e q c t)
                    \/ (q = k /\ t = t1 /\ c = c1)).
      { destruct HV as [HV|HV].
        - left. apply Vote_set_node. left. destruct (c1 =? 0); exact HV.
        - destruct (c1 =? 0) eqn:Ec1.
          + left. apply Vote_set_node. right. exact HV.
          + cbn in HV. destruct ((q =? k) && (t =? t1)) eqn:E.
            * apply andb_prop in E. destruct E as [E1 E2]. apply N.eqb_eq in E1, E2. inversion HV; subst. auto.
            * left. apply Vote_set_node. right. exact HV. }
      destruct HV' as [HV'|(-> & -> & ->)].
      + destruct (N.eqb_spec q k) as [->|Hne]; [|auto]. left.
        destruct HV' as [HV'|HV']; [|right; exact HV']. left. rewrite Ei. right. exact HV'.
      + left. left. rewrite Ei. left. reflexivity.
    - destruct (voted e k t0) as [c1|]; [|discriminate]. destruct (c1 =? k); [|discriminate].
      inversion H; subst; clear H. left. exact HV.
    - (* grant *)
      destruct (p_up (nodes e k) && negb (c0 =? 0) && in_net (VoteReq c0 t0) (net e)); [|discriminate].
      destruct (p_term (nodes e k) <? t0).
      + inversion H; subst; clear H.
        apply Vote_set_node in HV. destruct (N.eqb_spec q k) as [->|Hne]; [|auto].
        cbn in HV. destruct HV as [HV|HV]; [|left; right; exact HV].
        apply in_app_iff in HV. destruct HV as [HV|[HV|[]]]; [left; left; auto|].
        unfold vol in HV. cbn in HV. inversion HV; subst. auto.
      + destruct ((p_term (nodes e k) =? t0) && ((p_vote (nodes e k) =? 0) || (p_vote (nodes e k) =? c0)));
          [|discriminate].
        inversion H; subst; clear H.
        apply Vote_set_node in HV. destruct (N.eqb_spec q k) as [->|Hne]; [|auto].
        cbn in HV. destruct HV as [HV|HV]; [|left; right; exact HV].
        apply in_app_iff in HV. destruct HV as [HV|[HV|[]]]; [left; left; auto|].
        unfold vol in HV. cbn in HV. inversion HV; subst. auto.
    - destruct (voted e k t0) as [c1|]; [|discriminate]. destruct (c1 =? k); [discriminate|].
      inversion H; subst; clear H. left. exact HV.
    - destruct (voted e k t0) as [c1|]; [|discriminate].
      destruct ((c1 =? k) && existsb (N.eqb k) (leaders e t0)); [|discriminate].
      inversion H; subst; clear H. left. exact HV.
    - (* receive grant *)
      destruct (p_role (nodes e c0)); try discriminate.
      destruct (p_up (nodes e c0) && in_net (Grant k c0 (p_term (nodes e c0))) (net e)); [|discriminate].
      inversion H; subst; clear H.
      apply Vote_set_node in HV. destruct (N.eqb_spec q c0) as [->|Hne]; [|auto]. left. exact HV.
    - (* become leader *)
      destruct (p_role (nodes e c0)); try discriminate.
      destruct (p_up (nodes e c0) && quorum inc out (p_granted (nodes e c0))); [|discriminate].
      inversion H; subst; clear H.
      change (Vote (set_node e c0 (mkPN true (p_term (nodes e c0)) (p_vote (nodes e c0)) PL (p_granted (nodes e c0))
                                        (p_dterm (nodes e c0)) (p_dvote (nodes e c0)) (p_imgs (nodes e c0)))) q c t) in HV.
      apply Vote_set_node in HV. destruct (N.eqb_spec q c0) as [->|Hne]; [|auto]. left. exact HV.
    - (* update term *)
      destruct (p_up (nodes e k) && (p_term (nodes e k) <? t0)); [|discriminate]. inversion H; subst; clear H.
      apply Vote_set_node in HV. destruct (N.eqb_spec q k) as [->|Hne]; [|auto].
      cbn in HV. destruct HV as [HV|HV]; [|left; right; exact HV].
      apply in_app_iff in HV. destruct HV as [HV|[HV|[]]]; [left; left; auto|].
      unfold vol in HV. cbn in HV. inversion HV; subst. congruence.
    - (* step down *)
      destruct (p_up (nodes e k)); [|discriminate]. inversion H; subst; clear H.
      apply Vote_set_node in HV. destruct (N.eqb_spec q k) as [->|Hne]; [|auto]. left. exact HV.
    - (* crash *)
      destruct (p_up (nodes e k)); [|discriminate]. inversion H; subst; clear H.
      apply Vote_set_node in HV. destruct (N.eqb_spec q k) as [->|Hne]; [|auto].
      cbn in HV. left. right. destruct HV as [[HV|[]]|HV]; [|exact HV].
      unfold vol in HV. cbn in HV. inversion HV; subst. apply (inv_dur_voted _ _ _ HI). exact Hc0.
    - (* restart *)
      destruct (p_up (nodes e k)); [discriminate|]. inversion H; subst; clear H.
      apply Vote_set_node in HV. destruct (N.eqb_spec q k) as [->|Hne]; [|auto].
      cbn in HV. left. destruct HV as [[HV|[]]|HV]; [|right; exact HV].
      left. unfold vol in HV. cbn in HV. rewrite <- HV. exact Hr.
  Qed.
End ElectionFacts2.
