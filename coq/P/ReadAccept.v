(* Executable acceptor for the read layer of P (tie B for C08, cluster level):
   decides whether an observed implementation trace is an execution of P/Read.v.
   On top of the log-layer events (P/LogAccept.v) the trace carries
     RvReadReq c ctx idx    the leader c recorded a read request with context ctx and
                            commit index idx (ReadOnly::add_request)
     RvHbAck q c t ctx      q CREATED a heartbeat response of term t to c echoing ctx
     RvReadServe c ctx idx  c answered the request ctx with index idx (a ReadState, or a
                            MsgReadIndexResp to the forwarding follower)
   Labels are synthesised (untrusted), run through [rrule], and the result must project
   to the observation.  An accepted trace is a P execution ([raccept_trace_reachable]). *)
From RV Require Import Base.Prelude M.Quorum P.Election P.ElectionAccept P.Log P.LogAccept P.Read.

Local Open Scope N_scope.

Inductive revent :=
| RvLog (e : levent)
| RvReadReq (c ctx : N) (idx : nat)
| RvHbAck (q c t ctx : N)
| RvReadServe (c ctx : N) (idx : nat).

Section Accept.
  Variables (inc out : list N).

  Definition rsynth (s : rst) (e : revent) : list rlabel :=
    match e with
    | RvLog ev => map RLog (lsynth (pr_lg s) ev)
    | RvReadReq c ctx _ => [RReadReq c ctx]
    | RvHbAck q c t ctx => [RHbAck q c t ctx]
    | RvReadServe c ctx _ => [RReadServe c ctx]
    end.

  Definition with_lg (s : rst) (g : lst) : rst := mkRS g (pr_reqs s) (pr_hacks s) (pr_served s).

  Definition raccept (s : rst) (e : revent) : rst + N :=
    match e with
    | RvLog ev =>
        match laccept inc out (pr_lg s) ev with
        | inl g => inl (with_lg s g)
        | inr why => inr why
        end
    | RvReadReq c ctx idx =>
        match rrule inc out (RReadReq c ctx) s with
        | None => inr R_GUARD
        | Some s' =>
            (* the recorded index is the observed one *)
            if (l_commit (ln (pr_lg s) c) =? idx)%nat then inl s' else inr R_POST
        end
    | RvHbAck q c t ctx =>
        match rrule inc out (RHbAck q c t ctx) s with
        | None => inr R_GUARD
        | Some s' => inl s'
        end
    | RvReadServe c ctx idx =>
        match rrule inc out (RReadServe c ctx) s with
        | None => inr R_GUARD
        | Some s' =>
            (* the answered index is the observed one *)
            match pr_served s' with
            | (_, _, _, i) :: _ => if (i =? idx)%nat then inl s' else inr R_POST
            | [] => inr R_POST
            end
        end
    end.

  Fixpoint raccept_trace (s : rst) (es : list revent) (i : N) : rst * option (N * N) :=
    match es with
    | [] => (s, None)
    | e :: rest =>
        match raccept s e with
        | inl s' => raccept_trace s' rest (i + 1)
        | inr why => (s, Some (i, why))
        end
    end.

  Lemma rrun_reachable ls : forall s s',
    rreachable inc out s -> rrun inc out ls s = Some s' -> rreachable inc out s'.
  Proof.
    induction ls as [|l rest IH]; intros s s' Hr H; cbn in H.
    - inversion H; subst. exact Hr.
    - destruct (rrule inc out l s) as [s1|] eqn:E; [|discriminate].
      eapply IH; [|exact H]. eapply rreach_step; eassumption.
  Qed.

  Lemma rrun_lift ls : forall s g, lrun inc out ls (pr_lg s) = Some g ->
    rrun inc out (map RLog ls) s = Some (with_lg s g).
  Proof.
    induction ls as [|l rest IH]; intros s g H; cbn in H |- *.
    - inversion H; subst. destruct s; reflexivity.
    - destruct (lrule inc out l (pr_lg s)) as [g1|] eqn:E; [|discriminate].
      apply (IH (mkRS g1 (pr_reqs s) (pr_hacks s) (pr_served s)) g H).
  Qed.

  Lemma laccept_run g e g' : laccept inc out g e = inl g' -> lrun inc out (lsynth g e) g = Some g'.
  Proof.
    unfold laccept. intros H.
    destruct (negb _); [discriminate|].
    destruct (lrun inc out (lsynth g e) g) as [g1|] eqn:E; [|discriminate].
    match type of H with (if ?c then _ else _) = _ => destruct c end; [|discriminate].
    inversion H; subst. reflexivity.
  Qed.

  (* an accepted event is the run of its synthesised labels *)
  Theorem raccept_run s e s' : raccept s e = inl s' -> rrun inc out (rsynth s e) s = Some s'.
  Proof.
    destruct e as [ev|c ctx idx|q c t ctx|c ctx idx]; cbn [raccept rsynth]; intros H.
    - destruct (laccept inc out (pr_lg s) ev) as [g|why] eqn:E; [|discriminate].
      inversion H; subst. apply rrun_lift. apply laccept_run. exact E.
    - cbn [rrun]. destruct (rrule inc out (RReadReq c ctx) s) as [s1|]; [|discriminate].
      destruct (_ =? _)%nat; [|discriminate]. inversion H; subst. reflexivity.
    - cbn [rrun]. destruct (rrule inc out (RHbAck q c t ctx) s) as [s1|]; [|discriminate].
      inversion H; subst. reflexivity.
    - cbn [rrun]. destruct (rrule inc out (RReadServe c ctx) s) as [s1|]; [|discriminate].
      destruct (pr_served s1) as [|[[[? ?] ?] i] ?]; [discriminate|].
      destruct (_ =? _)%nat; [|discriminate]. inversion H; subst. reflexivity.
  Qed.

  Theorem raccept_reachable s e s' :
    rreachable inc out s -> raccept s e = inl s' -> rreachable inc out s'.
  Proof. intros Hr H. eapply rrun_reachable; [exact Hr|]. apply raccept_run. exact H. Qed.

  Theorem raccept_trace_reachable es : forall s i s',
    rreachable inc out s -> raccept_trace s es i = (s', None) -> rreachable inc out s'.
  Proof.
    induction es as [|e rest IH]; intros s i s' Hr H; cbn in H.
    - inversion H; subst. exact Hr.
    - destruct (raccept s e) as [s1|why] eqn:E; [|discriminate].
      eapply IH; [|exact H]. eapply raccept_reachable; eassumption.
  Qed.

  (* what acceptance of the read events means for the observation *)
  Theorem raccept_readreq_obs s c ctx idx s' : raccept s (RvReadReq c ctx idx) = inl s' ->
    pr_reqs s' = pr_reqs s ++ [(c, p_term (nodes (el (pr_lg s)) c), ctx, idx, cpts (pr_lg s))].
  Proof.
    cbn [raccept]. destruct (rrule inc out (RReadReq c ctx) s) as [s1|] eqn:E; [|discriminate].
    destruct (l_commit (ln (pr_lg s) c) =? idx)%nat eqn:Ei; [|discriminate]. intros H. inversion H; subst s1.
    apply Nat.eqb_eq in Ei. subst idx. cbn in E.
    match type of E with (if ?g then _ else _) = _ => destruct g; [|discriminate] end.
    inversion E; subst. reflexivity.
  Qed.

  Theorem raccept_serve_obs s c ctx idx s' : raccept s (RvReadServe c ctx idx) = inl s' ->
    pr_served s' = (c, p_term (nodes (el (pr_lg s)) c), ctx, idx) :: pr_served s.
  Proof.
    cbn [raccept]. destruct (rrule inc out (RReadServe c ctx) s) as [s1|] eqn:E; [|discriminate].
    cbn in E. destruct (req_from c (p_term (nodes (el (pr_lg s)) c)) ctx (pr_reqs s)) as [|r later]; [discriminate|].
    match type of E with (if ?g then _ else _) = _ => destruct g; [|discriminate] end.
    inversion E; subst s1. cbn. destruct (rq_idx r =? idx)%nat eqn:Ei; [|discriminate].
    apply Nat.eqb_eq in Ei. subst idx. intros H. inversion H; subst. reflexivity.
  Qed.
End Accept.
