(* P, election layer: the abstract protocol that the election-safety proof (C02)
   and the promise-durability proof (C06) are about.  Per node only what those
   properties depend on is kept: term, vote, role, the votes a candidate has
   recorded, the durable (term, vote) image, the queue of images handed out for
   persistence and not yet fsynced.  Everything else of the implementation
   (logs, timers, pre-vote, leases, priorities, transfer, flow control) is
   absent: a node may campaign, step down or refuse a vote at any time, which
   over-approximates all of it.  Rules are partial functions indexed by labels:
   [prule l s = Some s'].  The configuration (a possibly joint voter set) is
   fixed in this layer.

   Executable definitions only; theorems are in P/ElectionProofs.v. *)
From RV Require Import Base.Prelude M.Quorum.

Local Open Scope N_scope.

Inductive prole := PF | PC | PL.   (* follower (incl. pre-candidate), candidate, leader *)

Record pnode := mkPN {
  p_up : bool;
  p_term : N;
  p_vote : N;                 (* 0 = none *)
  p_role : prole;
  p_granted : list N;         (* ids whose grant the candidate has recorded (incl. itself) *)
  p_dterm : N;                (* durable image *)
  p_dvote : N;
  p_imgs : list (N * N)       (* (term, vote) images handed out for persistence, oldest first *)
}.

Inductive pmsg :=
| VoteReq (from t : N)
| Grant (from to t : N)
| LeaderMsg (from t : N).      (* anything sent as leader of term t: append, heartbeat, snapshot *)

Definition pmsg_eqb (a b : pmsg) : bool :=
  match a, b with
  | VoteReq f t, VoteReq f' t' => (f =? f') && (t =? t')
  | Grant f o t, Grant f' o' t' => (f =? f') && (o =? o') && (t =? t')
  | LeaderMsg f t, LeaderMsg f' t' => (f =? f') && (t =? t')
  | _, _ => false
  end.

Definition in_net (m : pmsg) (net : list pmsg) : bool := existsb (pmsg_eqb m) net.

Record pst := mkPS {
  nodes : N -> pnode;
  net : list pmsg;                 (* released messages; never removed: duplication, delay, reordering *)
  voted : N -> N -> option N;      (* ghost: durable vote history, node -> term -> candidate *)
  leaders : N -> list N            (* ghost: every node that ever took the leader role in a term *)
}.

Definition pn0 : pnode := mkPN true 0 0 PF [] 0 0 [].
Definition pinit : pst := mkPS (fun _ => pn0) [] (fun _ _ => None) (fun _ => []).

Definition set_node (s : pst) (n : N) (p : pnode) : pst :=
  mkPS (fun k => if k =? n then p else nodes s k) (net s) (voted s) (leaders s).
Definition add_msg (s : pst) (m : pmsg) : pst :=
  mkPS (nodes s) (m :: net s) (voted s) (leaders s).
Definition set_voted (s : pst) (n t c : N) : pst :=
  mkPS (nodes s) (net s)
       (fun n' t' => if (n' =? n) && (t' =? t) then Some c else voted s n' t') (leaders s).
Definition add_leader (s : pst) (t c : N) : pst :=
  mkPS (nodes s) (net s) (voted s) (fun t' => if t' =? t then c :: leaders s t' else leaders s t').

Inductive label :=
| LCampaign (n : N)              (* term+1, vote for self, role candidate *)
| LImage (n : N)                 (* hand the current (term, vote) out for persistence (a Ready) *)
| LFsync (n : N)                 (* the oldest handed-out image becomes durable *)
| LReleaseReq (n t : N)          (* release a vote request for a durably self-voted term *)
| LGrant (n c t : N)             (* volatile grant of n's vote to c in term t *)
| LReleaseGrant (n t : N)        (* release the grant of a durable vote *)
| LReleaseLeader (n t : N)       (* release a message sent as leader of term t *)
| LRecvGrant (c n : N)           (* candidate c records n's grant for its current term *)
| LBecomeLeader (c : N)
| LUpdateTerm (n t : N)          (* any message with a higher term *)
| LStepDown (n : N)              (* candidate/leader -> follower in the same term *)
| LCrash (n : N)
| LRestart (n : N).

Section Rules.
  (* the fixed (joint) voter configuration *)
  Variables (inc out : list N).

  Definition quorum (S : list N) : bool := has_quorum inc out S.

  Definition prule (l : label) (s : pst) : option pst :=
    match l with
    | LCampaign n =>
        let p := nodes s n in
        if p_up p && negb (n =? 0) then
          Some (set_node s n (mkPN true (p_term p + 1) n PC [n] (p_dterm p) (p_dvote p) (p_imgs p)))
        else None
    | LImage n =>
        let p := nodes s n in
        if p_up p then
          Some (set_node s n (mkPN true (p_term p) (p_vote p) (p_role p) (p_granted p)
                                   (p_dterm p) (p_dvote p) (p_imgs p ++ [(p_term p, p_vote p)])))
        else None
    | LFsync n =>
        let p := nodes s n in
        match p_imgs p with
        | (t, c) :: rest =>
            if p_up p then
              let s1 := set_node s n (mkPN true (p_term p) (p_vote p) (p_role p) (p_granted p) t c rest) in
              Some (if c =? 0 then s1 else set_voted s1 n t c)
            else None
        | [] => None
        end
    | LReleaseReq n t =>
        match voted s n t with
        | Some c => if c =? n then Some (add_msg s (VoteReq n t)) else None
        | None => None
        end
    | LGrant n c t =>
        let p := nodes s n in
        if p_up p && negb (c =? 0) && in_net (VoteReq c t) (net s) then
          if p_term p <? t then
            Some (set_node s n (mkPN true t c PF [] (p_dterm p) (p_dvote p) (p_imgs p)))
          else if (p_term p =? t) && ((p_vote p =? 0) || (p_vote p =? c)) then
            Some (set_node s n (mkPN true t c (p_role p) (p_granted p) (p_dterm p) (p_dvote p) (p_imgs p)))
          else None
        else None
    | LReleaseGrant n t =>
        match voted s n t with
        | Some c => if c =? n then None else Some (add_msg s (Grant n c t))
        | None => None
        end
    | LReleaseLeader n t =>
        (* leader traffic is released only once the leader's own vote of that term is durable *)
        match voted s n t with
        | Some c => if (c =? n) && existsb (N.eqb n) (leaders s t)
                    then Some (add_msg s (LeaderMsg n t)) else None
        | None => None
        end
    | LRecvGrant c n =>
        let p := nodes s c in
        match p_role p with
        | PC =>
            if p_up p && in_net (Grant n c (p_term p)) (net s) then
              Some (set_node s c (mkPN true (p_term p) (p_vote p) PC (n :: p_granted p)
                                       (p_dterm p) (p_dvote p) (p_imgs p)))
            else None
        | _ => None
        end
    | LBecomeLeader c =>
        let p := nodes s c in
        match p_role p with
        | PC =>
            if p_up p && quorum (p_granted p) then
              Some (add_leader
                      (set_node s c (mkPN true (p_term p) (p_vote p) PL (p_granted p)
                                          (p_dterm p) (p_dvote p) (p_imgs p)))
                      (p_term p) c)
            else None
        | _ => None
        end
    | LUpdateTerm n t =>
        let p := nodes s n in
        if p_up p && (p_term p <? t) then
          Some (set_node s n (mkPN true t 0 PF [] (p_dterm p) (p_dvote p) (p_imgs p)))
        else None
    | LStepDown n =>
        let p := nodes s n in
        if p_up p then
          Some (set_node s n (mkPN true (p_term p) (p_vote p) PF [] (p_dterm p) (p_dvote p) (p_imgs p)))
        else None
    | LCrash n =>
        (* volatile state and un-fsynced images are lost: what a restart will see *)
        let p := nodes s n in
        if p_up p then
          Some (set_node s n (mkPN false (p_dterm p) (p_dvote p) PF [] (p_dterm p) (p_dvote p) []))
        else None
    | LRestart n =>
        let p := nodes s n in
        if p_up p then None
        else Some (set_node s n (mkPN true (p_term p) (p_vote p) PF [] (p_dterm p) (p_dvote p) []))
    end.

  Fixpoint prun (ls : list label) (s : pst) : option pst :=
    match ls with
    | [] => Some s
    | l :: rest => match prule l s with Some s' => prun rest s' | None => None end
    end.

  Inductive reachable : pst -> Prop :=
  | reach_init : reachable pinit
  | reach_step : forall s l s', reachable s -> prule l s = Some s' -> reachable s'.
End Rules.
