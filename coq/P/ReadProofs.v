(* C08, cluster level: ReadIndex in Safe mode is linearizable, for the abstract
   protocol P/Read.v (read layer over P/Log.v over P/Election.v). *)
From RV Require Import Base.Prelude M.Quorum M.QuorumProofs P.Election P.ElectionProofs
  P.Log P.LogProofs P.LogSafety P.Read.

Local Open Scope N_scope.

(* ------------------------------------------------------------------ *)
(** * Log-layer facts used at request time *)

Section LogFacts.
  Variables (inc out : list N).
  Hypothesis inc_nonempty : inc <> [].
  Hypothesis Hmulti : no_single_quorum inc out.
  Notation lrule := (lrule inc out).
  Notation lreachable := (lreachable inc out).

  (* a leader's commit index covers every commit point of its own term *)
  Lemma leader_commit_covers s : lreachable s ->
    forall T k c, In (T, k) (cpts s) -> own_term_leader s c = true -> p_term (nodes (el s) c) = T ->
      (k <= l_commit (ln s c))%nat.
  Proof.
    induction 1 as [|s l s' Hr IH Hstep]; [intros T k c []|]. intros T k c Hin Hl HT.
    pose proof (lreachable_LInv inc out inc_nonempty Hmulti s Hr) as HL.
    pose proof (lreachable_el _ _ _ Hr) as Hre.
    assert (Hr' : lreachable s') by (eapply lreach_step; eassumption).
    pose proof (lreachable_el _ _ _ Hr') as Hre'.
    apply own_term_leader_spec in Hl. destruct Hl as [Hrl Hup].
    destruct (cpts_step inc out s l s' T k Hstep Hin) as [Hold|(c0 & -> & ->)].
    - (* an old commit point: c led T before the step too *)
      assert (Hwas : own_term_leader s c = true /\ p_term (nodes (el s) c) = T).
      { destruct (lstep_el _ _ _ _ _ Hstep) as [E|(l0 & -> & Hp)]; [rewrite E in *; split; [apply own_term_leader_spec; auto|exact HT]|].
        destruct (prule_shape _ _ _ _ _ Hp) as (k0 & p' & Hn & [[_ Hch]|(Hpc & _ & Hpt & _ & -> & _)]).
        - rewrite Hn in Hrl, Hup, HT. destruct (N.eqb_spec c k0) as [->|Hne];
            [|split; [apply own_term_leader_spec; auto|exact HT]].
          destruct Hch as [Hc1 Hc2 Hc3|Hc1 _|Hc1 _]; try congruence.
          split; [apply own_term_leader_spec; split; congruence|congruence].
        - rewrite Hn in Hrl, Hup, HT. destruct (N.eqb_spec c k0) as [->|Hne];
            [|split; [apply own_term_leader_spec; auto|exact HT]].
          exfalso. destruct (lel_inv _ _ _ _ _ Hstep) as (e' & He & _ & _).
          pose proof (new_leader_llog_nil inc out inc_nonempty Hmulti s k0 e' Hr HL He) as Hnil.
          destruct (cpt_own inc out inc_nonempty Hmulti s T k Hr Hold) as [[Hk1 Hk2] _].
          rewrite <- HT, Hpt, Hnil in Hk2. cbn in Hk2. lia. }
      destruct Hwas as [Hl0 HT0]. specialize (IH T k c Hold Hl0 HT0).
      assert (Hnc : l <> LEl (LCrash c)).
      { intros ->. destruct (lel_inv _ _ _ _ _ Hstep) as (e' & He & Hel & _).
        destruct (crash_inv _ _ _ _ _ He) as (_ & Ee). rewrite Hel, Ee in Hrl. cbn in Hrl.
        rewrite N.eqb_refl in Hrl. cbn in Hrl. discriminate. }
      destruct (commit_prefix_immutable inc out inc_nonempty Hmulti s l s' c Hr Hstep Hnc) as [Hm _]. lia.
    - (* the commit point is created by this step, by the leader of the term *)
      pose proof Hstep as H0. apply lcommitl_inv in H0. cbv zeta in H0. destruct H0 as (Hl0 & _ & _ & _ & _ & Es').
      assert (Eel : el s' = el s) by (rewrite Es'; destruct (is_prefix _ _ && _)%bool; reflexivity).
      apply own_term_leader_spec in Hl0. destruct Hl0 as [Hrl0 _]. rewrite Eel in *.
      assert (c = c0) by (eapply (election_safety_roles inc out inc_nonempty (el s) c c0 Hmulti Hre); assumption).
      subst c0. rewrite Es'. destruct (is_prefix _ _ && _)%bool; cbn; rewrite N.eqb_refl; cbn; lia.
  Qed.

  (* what the read-request guard gives: the recorded index covers every commit point of
     a term <= the leader's term *)
  Lemma request_time_bound s c : lreachable s ->
    p_up (nodes (el s) c) = true -> p_role (nodes (el s) c) = PL ->
    (1 <= l_commit (ln s c))%nat ->
    term_at (l_log (ln s c)) (l_commit (ln s c)) = p_term (nodes (el s) c) ->
    forall T k, In (T, k) (cpts s) -> T <= p_term (nodes (el s) c) -> (k <= l_commit (ln s c))%nat.
  Proof.
    intros Hr Hup Hrl Hc Ht T k Hin HT.
    pose proof (lreachable_LInv inc out inc_nonempty Hmulti s Hr) as HL.
    pose proof (lreachable_EInv inc out inc_nonempty Hmulti s Hr) as HE.
    assert (Hl : own_term_leader s c = true) by (apply own_term_leader_spec; auto).
    destruct (N.eq_dec T (p_term (nodes (el s) c))) as [E|Hne].
    - apply (leader_commit_covers s Hr T k c Hin Hl). congruence.
    - destruct (leader_completeness_roles inc out inc_nonempty Hmulti s T k c Hr Hin Hrl HT) as [Hk Ef].
      destruct (cpt_own inc out inc_nonempty Hmulti s T k Hr Hin) as [[Hk1 _] HoT].
      assert (Etk : term_at (l_log (ln s c)) k = T) by (rewrite <- HoT; apply term_at_firstn_eq; exact Ef).
      destruct (le_lt_dec k (l_commit (ln s c))) as [Hle|Hlt]; [exact Hle|exfalso].
      assert (Hs : sorted (l_log (ln s c))) by (rewrite (li_B s HL c Hl); apply (e_sorted s HE)).
      pose proof (Hs (l_commit (ln s c)) k Hc ltac:(lia) Hk) as Hle. rewrite Ht, Etk in Hle. lia.
  Qed.

  (* the entries of a commit point of term T are durable on a quorum whose durable terms are >= T *)
  Lemma cpt_durable_terms s T k : lreachable s -> In (T, k) (cpts s) ->
    exists Q, quorum inc out Q = true /\ forall z, In z Q -> T <= p_dterm (nodes (el s) z).
  Proof.
    intros Hr Hin. destruct (durable_quorum inc out inc_nonempty Hmulti s T k Hr Hin) as (Q & HQ & HQd).
    exists Q. split; [exact HQ|]. intros z Hz. destruct (HQd z Hz) as [Hk Ef].
    destruct (cpt_own inc out inc_nonempty Hmulti s T k Hr Hin) as [[Hk1 _] HoT].
    assert (Etk : term_at (l_dlog (ln s z)) k = T) by (rewrite <- HoT; apply term_at_firstn_eq; exact Ef).
    destruct (term_at_In (l_dlog (ln s z)) k) as (e & He & Ee); [lia|]. rewrite <- Etk, <- Ee.
    apply (e_dlog s (lreachable_EInv inc out inc_nonempty Hmulti s Hr) z e He).
  Qed.

  (* every commit index is covered by a commit point *)
  Lemma commit_le_cpt s n : lreachable s -> (0 < l_commit (ln s n))%nat ->
    exists T k, In (T, k) (cpts s) /\ (l_commit (ln s n) <= k)%nat.
  Proof.
    intros Hr Hpos. destruct (follower_commit_bound inc out inc_nonempty Hmulti s n Hr Hpos) as (T & k & Hin & Hk & _).
    eauto.
  Qed.
End LogFacts.
