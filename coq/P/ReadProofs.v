(* C08, cluster level: ReadIndex in Safe mode is linearizable, for the abstract
   protocol P/Read.v (read layer over P/Log.v over P/Election.v). *)
From RV Require Import Base.Prelude M.Quorum M.QuorumProofs P.Election P.ElectionProofs
  P.Log P.LogProofs P.LogSafety P.Read.

Local Open Scope N_scope.

(* ------------------------------------------------------------------ *)
(** * Log-layer facts used at request time *)

Section LogFacts.
  Variables (inc out : list N).
  Hypothesis inc_nonempty : inc <> [].
  Hypothesis Hmulti : no_single_quorum inc out.
  Notation lrule := (lrule inc out).
  Notation lreachable := (lreachable inc out).

  (* a leader's commit index covers every commit point of its own term *)
  Lemma leader_commit_covers s : lreachable s ->
    forall T k c, In (T, k) (cpts s) -> own_term_leader s c = true -> p_term (nodes (el s) c) = T ->
      (k <= l_commit (ln s c))%nat.
  Proof.
    induction 1 as [|s l s' Hr IH Hstep]; [intros T k c []|]. intros T k c Hin Hl HT.
    pose proof (lreachable_LInv inc out inc_nonempty Hmulti s Hr) as HL.
    pose proof (lreachable_el _ _ _ Hr) as Hre.
    assert (Hr' : lreachable s') by (eapply lreach_step; eassumption).
    pose proof (lreachable_el _ _ _ Hr') as Hre'.
    apply own_term_leader_spec in Hl. destruct Hl as [Hrl Hup].
    destruct (cpts_step inc out s l s' T k Hstep Hin) as [Hold|(c0 & -> & ->)].
    - (* an old commit point: c led T before the step too *)
      assert (Hwas : own_term_leader s c = true /\ p_term (nodes (el s) c) = T).
      { destruct (lstep_el _ _ _ _ _ Hstep) as [E|(l0 & -> & Hp)]; [rewrite E in *; split; [apply own_term_leader_spec; auto|exact HT]|].
        destruct (prule_shape _ _ _ _ _ Hp) as (k0 & p' & Hn & [[_ Hch]|(Hpc & _ & Hpt & _ & -> & _)]).
        - rewrite Hn in Hrl, Hup, HT. destruct (N.eqb_spec c k0) as [->|Hne];
            [|split; [apply own_term_leader_spec; auto|exact HT]].
          destruct Hch as [Hc1 Hc2 Hc3|Hc1 _|Hc1 _]; try congruence.
          split; [apply own_term_leader_spec; split; congruence|congruence].
        - rewrite Hn in Hrl, Hup, HT. destruct (N.eqb_spec c k0) as [->|Hne];
            [|split; [apply own_term_leader_spec; auto|exact HT]].
          exfalso. destruct (lel_inv _ _ _ _ _ Hstep) as (e' & He & _ & _).
          pose proof (new_leader_llog_nil inc out inc_nonempty Hmulti s k0 e' Hr HL He) as Hnil.
          destruct (cpt_own inc out inc_nonempty Hmulti s T k Hr Hold) as [[Hk1 Hk2] _].
          rewrite <- HT, Hpt, Hnil in Hk2. cbn in Hk2. lia. }
      destruct Hwas as [Hl0 HT0]. specialize (IH T k c Hold Hl0 HT0).
      assert (Hnc : l <> LEl (LCrash c)).
      { intros ->. destruct (lel_inv _ _ _ _ _ Hstep) as (e' & He & Hel & _).
        destruct (crash_inv _ _ _ _ _ He) as (_ & Ee). rewrite Hel, Ee in Hrl. cbn in Hrl.
        rewrite N.eqb_refl in Hrl. cbn in Hrl. discriminate. }
      destruct (commit_prefix_immutable inc out inc_nonempty Hmulti s l s' c Hr Hstep Hnc) as [Hm _]. lia.
    - (* the commit point is created by this step, by the leader of the term *)
      pose proof Hstep as H0. apply lcommitl_inv in H0. cbv zeta in H0. destruct H0 as (Hl0 & _ & _ & _ & _ & Es').
      assert (Eel : el s' = el s) by (rewrite Es'; destruct (is_prefix _ _ && _)%bool; reflexivity).
      apply own_term_leader_spec in Hl0. destruct Hl0 as [Hrl0 _]. rewrite Eel in *.
      assert (c = c0) by (eapply (election_safety_roles inc out inc_nonempty (el s) c c0 Hmulti Hre); assumption).
      subst c0. rewrite Es'. destruct (is_prefix _ _ && _)%bool; cbn; rewrite N.eqb_refl; cbn; lia.
  Qed.

  (* what the read-request guard gives: the recorded index covers every commit point of
     a term <= the leader's term *)
  Lemma request_time_bound s c : lreachable s ->
    p_up (nodes (el s) c) = true -> p_role (nodes (el s) c) = PL ->
    (1 <= l_commit (ln s c))%nat ->
    term_at (l_log (ln s c)) (l_commit (ln s c)) = p_term (nodes (el s) c) ->
    forall T k, In (T, k) (cpts s) -> T <= p_term (nodes (el s) c) -> (k <= l_commit (ln s c))%nat.
  Proof.
    intros Hr Hup Hrl Hc Ht T k Hin HT.
    pose proof (lreachable_LInv inc out inc_nonempty Hmulti s Hr) as HL.
    pose proof (lreachable_EInv inc out inc_nonempty Hmulti s Hr) as HE.
    assert (Hl : own_term_leader s c = true) by (apply own_term_leader_spec; auto).
    destruct (N.eq_dec T (p_term (nodes (el s) c))) as [E|Hne].
    - apply (leader_commit_covers s Hr T k c Hin Hl). congruence.
    - destruct (leader_completeness_roles inc out inc_nonempty Hmulti s T k c Hr Hin Hrl HT) as [Hk Ef].
      destruct (cpt_own inc out inc_nonempty Hmulti s T k Hr Hin) as [[Hk1 _] HoT].
      assert (Etk : term_at (l_log (ln s c)) k = T) by (rewrite <- HoT; apply term_at_firstn_eq; exact Ef).
      destruct (le_lt_dec k (l_commit (ln s c))) as [Hle|Hlt]; [exact Hle|exfalso].
      assert (Hs : sorted (l_log (ln s c))) by (rewrite (li_B s HL c Hl); apply (e_sorted s HE)).
      pose proof (Hs (l_commit (ln s c)) k Hc ltac:(lia) Hk) as Hle. rewrite Ht, Etk in Hle. lia.
  Qed.

  (* the entries of a commit point of term T are durable on a quorum whose durable terms are >= T *)
  Lemma cpt_durable_terms s T k : lreachable s -> In (T, k) (cpts s) ->
    exists Q, quorum inc out Q = true /\ forall z, In z Q -> T <= p_dterm (nodes (el s) z).
  Proof.
    intros Hr Hin. destruct (durable_quorum inc out inc_nonempty Hmulti s T k Hr Hin) as (Q & HQ & HQd).
    exists Q. split; [exact HQ|]. intros z Hz. destruct (HQd z Hz) as [Hk Ef].
    destruct (cpt_own inc out inc_nonempty Hmulti s T k Hr Hin) as [[Hk1 _] HoT].
    assert (Etk : term_at (l_dlog (ln s z)) k = T) by (rewrite <- HoT; apply term_at_firstn_eq; exact Ef).
    destruct (term_at_In (l_dlog (ln s z)) k) as (e & He & Ee); [lia|]. rewrite <- Etk, <- Ee.
    apply (e_dlog s (lreachable_EInv inc out inc_nonempty Hmulti s Hr) z e He).
  Qed.

  (* every commit index is covered by a commit point *)
  Lemma commit_le_cpt s n : lreachable s -> (0 < l_commit (ln s n))%nat ->
    exists T k, In (T, k) (cpts s) /\ (l_commit (ln s n) <= k)%nat.
  Proof.
    intros Hr Hpos. destruct (follower_commit_bound inc out inc_nonempty Hmulti s n Hr Hpos) as (T & k & Hin & Hk & _).
    eauto.
  Qed.
End LogFacts.

(* ------------------------------------------------------------------ *)
(** * Lists of requests and acknowledgements *)

Lemma req_is_spec c t ctx r : req_is c t ctx r = true <-> rq_c r = c /\ rq_t r = t /\ rq_ctx r = ctx.
Proof.
  unfold req_is. split.
  - intros H. apply andb_prop in H. destruct H as [H H3]. apply andb_prop in H. destruct H as [H1 H2].
    apply N.eqb_eq in H1, H2, H3. auto.
  - intros (-> & -> & ->). rewrite !N.eqb_refl. reflexivity.
Qed.

Lemma req_eta (r : rreq) : r = (rq_c r, rq_t r, rq_ctx r, rq_idx r, rq_snap r).
Proof. destruct r as [[[[c t] ctx] idx] snap]. reflexivity. Qed.

Lemma req_from_none c t ctx l : existsb (req_is c t ctx) l = false -> req_from c t ctx l = [].
Proof.
  induction l as [|r l IH]; cbn; [reflexivity|]. intros H. apply orb_false_elim in H. destruct H as [H1 H2].
  rewrite H1. apply IH. exact H2.
Qed.

Lemma req_from_app c t ctx l x : existsb (req_is c t ctx) l = true ->
  req_from c t ctx (l ++ x) = req_from c t ctx l ++ x.
Proof.
  induction l as [|r l IH]; cbn; [discriminate|]. destruct (req_is c t ctx r); [reflexivity|]. cbn. exact IH.
Qed.

Lemma req_from_app_none c t ctx l x : existsb (req_is c t ctx) l = false ->
  req_from c t ctx (l ++ x) = req_from c t ctx x.
Proof.
  induction l as [|r l IH]; cbn; [reflexivity|]. intros H. apply orb_false_elim in H. destruct H as [H1 H2].
  rewrite H1. apply IH. exact H2.
Qed.

Lemma req_from_incl c t ctx l r : In r (req_from c t ctx l) -> In r l.
Proof.
  induction l as [|r0 l IH]; cbn; [auto|]. destruct (req_is c t ctx r0); [auto|]. intros H. right. apply IH. exact H.
Qed.

Lemma req_from_head c t ctx l r later : req_from c t ctx l = r :: later -> req_is c t ctx r = true.
Proof.
  induction l as [|r0 l IH]; cbn; [discriminate|]. destruct (req_is c t ctx r0) eqn:E; [|exact IH].
  intros H. inversion H; subst. exact E.
Qed.

Lemma ackers_In hs c t ctx q : In q (ackers hs c t ctx) <-> In (q, c, t, ctx) hs.
Proof.
  unfold ackers. rewrite in_map_iff. split.
  - intros ([[[q0 c0] t0] ctx0] & <- & H). apply filter_In in H. destruct H as [Hin H]. unfold hack_is in H. cbn in *.
    apply andb_prop in H. destruct H as [H H3]. apply andb_prop in H. destruct H as [H1 H2].
    apply N.eqb_eq in H1, H2, H3. subst. exact Hin.
  - intros H. exists (q, c, t, ctx). split; [reflexivity|]. apply filter_In. split; [exact H|].
    unfold hack_is. cbn. rewrite !N.eqb_refl. reflexivity.
Qed.

Lemma existsb_req_In c t ctx l : existsb (req_is c t ctx) l = true <->
  exists r, In r l /\ rq_c r = c /\ rq_t r = t /\ rq_ctx r = ctx.
Proof.
  rewrite existsb_exists. split; intros (r & Hin & H); exists r; (split; [exact Hin|]); apply req_is_spec; exact H.
Qed.

(* ------------------------------------------------------------------ *)
(** * Inversion of the read rules *)

Section ReadRules.
  Variables (inc out : list N).
  Notation rrule := (rrule inc out).

  Lemma is_up_leader_spec s c : is_up_leader s c = true <->
    p_up (nodes (el (pr_lg s)) c) = true /\ p_role (nodes (el (pr_lg s)) c) = PL.
  Proof.
    unfold is_up_leader. destruct (p_up _), (p_role _); cbn; split; intros; try tauto; try discriminate;
      destruct H; discriminate.
  Qed.

  Lemma rlog_inv l s s' : rrule (RLog l) s = Some s' ->
    exists g, lrule inc out l (pr_lg s) = Some g /\ s' = mkRS g (pr_reqs s) (pr_hacks s) (pr_served s).
  Proof. cbn. destruct (lrule inc out l (pr_lg s)) as [g|]; [|discriminate]. intros H. inversion H. eauto. Qed.

  Lemma rreadreq_inv c ctx s s' : rrule (RReadReq c ctx) s = Some s' ->
    let t := p_term (nodes (el (pr_lg s)) c) in
    let x := ln (pr_lg s) c in
    p_up (nodes (el (pr_lg s)) c) = true /\ p_role (nodes (el (pr_lg s)) c) = PL /\
    (1 <= l_commit x)%nat /\ term_at (l_log x) (l_commit x) = t /\
    existsb (req_is c t ctx) (pr_reqs s) = false /\
    s' = mkRS (pr_lg s) (pr_reqs s ++ [(c, t, ctx, l_commit x, cpts (pr_lg s))]) (pr_hacks s) (pr_served s).
  Proof.
    cbn [Read.rrule]. cbv zeta. intros H.
    match type of H with (if ?g then _ else _) = _ => destruct g eqn:Hg; [|discriminate] end.
    inversion H; subst; clear H.
    apply andb_prop in Hg. destruct Hg as [Hg H4]. apply andb_prop in Hg. destruct Hg as [Hg H3].
    apply andb_prop in Hg. destruct Hg as [H1 H2]. apply is_up_leader_spec in H1. destruct H1 as [Hup Hrl].
    apply Nat.leb_le in H2. apply N.eqb_eq in H3. apply negb_true_iff in H4. auto 10.
  Qed.

  Lemma rhback_inv q c t ctx s s' : rrule (RHbAck q c t ctx) s = Some s' ->
    p_up (nodes (el (pr_lg s)) q) = true /\ p_term (nodes (el (pr_lg s)) q) = t /\ q <> c /\
    existsb (req_is c t ctx) (pr_reqs s) = true /\
    s' = mkRS (pr_lg s) (pr_reqs s) ((q, c, t, ctx) :: pr_hacks s) (pr_served s).
  Proof.
    cbn [Read.rrule]. cbv zeta. intros H.
    match type of H with (if ?g then _ else _) = _ => destruct g eqn:Hg; [|discriminate] end.
    inversion H; subst; clear H.
    apply andb_prop in Hg. destruct Hg as [Hg H4]. apply andb_prop in Hg. destruct Hg as [Hg H3].
    apply andb_prop in Hg. destruct Hg as [H1 H2]. apply N.eqb_eq in H2. apply negb_true_iff, N.eqb_neq in H3. auto 10.
  Qed.

  Lemma rserve_inv c ctx s s' : rrule (RReadServe c ctx) s = Some s' ->
    let t := p_term (nodes (el (pr_lg s)) c) in
    exists r later, req_from c t ctx (pr_reqs s) = r :: later /\
      p_up (nodes (el (pr_lg s)) c) = true /\ p_role (nodes (el (pr_lg s)) c) = PL /\
      (exists r', In r' (r :: later) /\ rq_c r' = c /\ rq_t r' = t /\
                  quorum inc out (c :: ackers (pr_hacks s) c t (rq_ctx r')) = true) /\
      s' = mkRS (pr_lg s) (pr_reqs s) (pr_hacks s) ((c, t, ctx, rq_idx r) :: pr_served s).
  Proof.
    cbn [Read.rrule]. cbv zeta. intros H.
    destruct (req_from c (p_term (nodes (el (pr_lg s)) c)) ctx (pr_reqs s)) as [|r later] eqn:Ef; [discriminate|].
    match type of H with (if ?g then _ else _) = _ => destruct g eqn:Hg; [|discriminate] end.
    inversion H; subst; clear H. exists r, later. split; [reflexivity|].
    apply andb_prop in Hg. destruct Hg as [H1 H2]. apply is_up_leader_spec in H1. destruct H1 as [Hup Hrl].
    apply existsb_exists in H2. destruct H2 as (r' & Hin & H2).
    apply andb_prop in H2. destruct H2 as [H2 H5]. apply andb_prop in H2. destruct H2 as [H3 H4].
    apply N.eqb_eq in H3, H4. repeat split; try assumption. exists r'. auto.
  Qed.

  Lemma rstep_lg l s s' : rrule l s = Some s' ->
    pr_lg s' = pr_lg s \/ exists ll, l = RLog ll /\ lrule inc out ll (pr_lg s) = Some (pr_lg s').
  Proof.
    intros H. destruct l as [ll|c ctx|q c t ctx|c ctx].
    - right. destruct (rlog_inv _ _ _ H) as (g & Hg & ->). eauto.
    - left. apply rreadreq_inv in H. cbv zeta in H. destruct H as (_ & _ & _ & _ & _ & ->). reflexivity.
    - left. apply rhback_inv in H. destruct H as (_ & _ & _ & _ & ->). reflexivity.
    - left. apply rserve_inv in H. cbv zeta in H. destruct H as (r & later & _ & _ & _ & _ & ->). reflexivity.
  Qed.

  Theorem rreachable_lg s : rreachable inc out s -> lreachable inc out (pr_lg s).
  Proof.
    induction 1 as [|s l s' Hr IH Hstep]; [apply lreach_init|].
    destruct (rstep_lg _ _ _ Hstep) as [E|(ll & _ & Hl)]; [rewrite E; exact IH|].
    eapply lreach_step; eassumption.
  Qed.
End ReadRules.

(* ------------------------------------------------------------------ *)
(** * The read invariant *)

Section RInv.
  Variables (inc out : list N).
  Hypothesis inc_nonempty : inc <> [].
  Hypothesis Hmulti : no_single_quorum inc out.
  Notation rrule := (rrule inc out).
  Notation rreachable := (rreachable inc out).

  Record RInv (s : rst) : Prop := {
    (* an acknowledgement echoes a recorded request *)
    r_hack_req : forall q c t ctx, In (q, c, t, ctx) (pr_hacks s) -> existsb (req_is c t ctx) (pr_reqs s) = true;
    (* contexts are unique per leader and term *)
    r_uniq : forall r1 r2, In r1 (pr_reqs s) -> In r2 (pr_reqs s) ->
        rq_c r1 = rq_c r2 -> rq_t r1 = rq_t r2 -> rq_ctx r1 = rq_ctx r2 -> r1 = r2;
    (* the recorded index covers the commit points of terms up to the leader's *)
    r_old : forall r T k, In r (pr_reqs s) -> In (T, k) (rq_snap r) -> T <= rq_t r -> (k <= rq_idx r)%nat;
    (* a commit point of a later term that existed at request time is durable on a quorum
       of nodes with a durable term beyond the request's, none of which acknowledges this
       request or a later one of the same leader and term *)
    r_new : forall r T k, In r (pr_reqs s) -> In (T, k) (rq_snap r) -> rq_t r < T ->
        exists Q, quorum inc out Q = true /\
          (forall z, In z Q -> T <= p_dterm (nodes (el (pr_lg s)) z)) /\
          forall q r', In r' (req_from (rq_c r) (rq_t r) (rq_ctx r) (pr_reqs s)) ->
            rq_c r' = rq_c r -> rq_t r' = rq_t r ->
            In (q, rq_c r, rq_t r, rq_ctx r') (pr_hacks s) -> ~ In q Q;
    (* answers *)
    r_served : forall c t ctx idx, In (c, t, ctx, idx) (pr_served s) ->
        exists snap, In (c, t, ctx, idx, snap) (pr_reqs s) /\
          forall T k, In (T, k) snap -> T <= t /\ (k <= idx)%nat
  }.

  Lemma RInv_init : RInv rinit.
  Proof. constructor; cbn; intros; contradiction. Qed.

  Theorem RInv_step s l s' : rreachable s -> RInv s -> rrule l s = Some s' -> RInv s'.
  Proof.
    intros Hr HI H. pose proof (rreachable_lg inc out s Hr) as Hlr.
    pose proof (reachable_Inv inc out _ (lreachable_el _ _ _ Hlr)) as HIe.
    destruct HI as [R1 R2 R3 R4 R5].
    destruct l as [ll|c ctx|q c t ctx|c ctx].
    - (* a log rule: durable terms only grow *)
      destruct (rlog_inv _ _ _ _ _ H) as (g & Hg & ->).
      constructor; cbn [pr_lg pr_reqs pr_hacks pr_served]; try assumption.
      intros r T k Hin Hs Ht. destruct (R4 r T k Hin Hs Ht) as (Q & HQ & HQd & HQa).
      exists Q. split; [exact HQ|]. split; [|exact HQa].
      intros z Hz. pose proof (HQd z Hz). pose proof (lstep_dterm_mono inc out (pr_lg s) ll g z Hlr Hg). lia.
    - (* a read request *)
      apply rreadreq_inv in H. cbv zeta in H. destruct H as (Hup & Hrl & Hc & Ht & Hnew & ->).
      set (t := p_term (nodes (el (pr_lg s)) c)) in *.
      set (idx := l_commit (ln (pr_lg s) c)) in *.
      set (r0 := (c, t, ctx, idx, cpts (pr_lg s))).
      assert (Hnoack : forall q, ~ In (q, c, t, ctx) (pr_hacks s)).
      { intros q Hq. rewrite (R1 q c t ctx Hq) in Hnew. discriminate. }
      constructor; cbn [pr_lg pr_reqs pr_hacks pr_served].
      + intros q c0 t0 ctx0 Hin. rewrite existsb_app. rewrite (R1 _ _ _ _ Hin). reflexivity.
      + intros r1 r2 H1 H2 Ec Et Ex. apply in_app_iff in H1, H2.
        assert (Hfresh : forall r, In r (pr_reqs s) -> rq_c r = c -> rq_t r = t -> rq_ctx r = ctx -> False).
        { intros r Hin E1 E2 E3. assert (existsb (req_is c t ctx) (pr_reqs s) = true); [|congruence].
          apply existsb_req_In. exists r. auto. }
        destruct H1 as [H1|[<-|[]]], H2 as [H2|[<-|[]]].
        * apply R2; assumption.
        * exfalso. apply (Hfresh r1 H1); assumption.
        * exfalso. apply (Hfresh r2 H2); symmetry; assumption.
        * reflexivity.
      + intros r T k Hin Hs HT. apply in_app_iff in Hin. destruct Hin as [Hin|[<-|[]]]; [eapply R3; eassumption|].
        cbn in Hs, HT |- *. apply (request_time_bound inc out inc_nonempty Hmulti (pr_lg s) c Hlr Hup Hrl Hc Ht T k Hs HT).
      + intros r T k Hin Hs HT. apply in_app_iff in Hin. destruct Hin as [Hin|[<-|[]]].
        * destruct (R4 r T k Hin Hs HT) as (Q & HQ & HQd & HQa). exists Q. split; [exact HQ|]. split; [exact HQd|].
          intros q r' Hr' Ec Et Hh. rewrite req_from_app in Hr'
            by (apply existsb_req_In; exists r; auto).
          apply in_app_iff in Hr'. destruct Hr' as [Hr'|[<-|[]]]; [eapply HQa; eassumption|].
          (* an acknowledgement with the fresh context would need the request to exist already *)
          cbn in Ec, Et, Hh. exfalso. rewrite <- Ec, <- Et in Hh. eapply Hnoack; exact Hh.
        * cbn in Hs, HT. destruct (cpt_durable_terms inc out inc_nonempty Hmulti (pr_lg s) T k Hlr Hs) as (Q & HQ & HQd).
          exists Q. split; [exact HQ|]. split; [exact HQd|]. cbn [rq_c rq_t rq_ctx r0 fst snd].
          intros q r' Hr' _ _ Hh. rewrite req_from_app_none in Hr' by exact Hnew.
          apply req_from_incl in Hr'. destruct Hr' as [<-|[]]. cbn in Hh. exfalso. eapply Hnoack; exact Hh.
      + intros c0 t0 ctx0 idx0 Hin. destruct (R5 _ _ _ _ Hin) as (snap & Hr0 & Hs). exists snap.
        split; [apply in_or_app; left; exact Hr0|exact Hs].
    - (* a heartbeat acknowledgement: its creator's durable term is at most t *)
      apply rhback_inv in H. destruct H as (Hup & Hqt & Hqc & Hex & ->).
      constructor; cbn [pr_lg pr_reqs pr_hacks pr_served]; try assumption.
      + intros q0 c0 t0 ctx0 [Hin|Hin]; [inversion Hin; subst; exact Hex|eapply R1; exact Hin].
      + intros r T k Hin Hs HT. destruct (R4 r T k Hin Hs HT) as (Q & HQ & HQd & HQa).
        exists Q. split; [exact HQ|]. split; [exact HQd|].
        intros q0 r' Hr' Ec Et [Hh|Hh]; [|eapply HQa; eassumption].
        inversion Hh; subst q0. intros Hq. pose proof (HQd q Hq) as Hd.
        pose proof (dterm_le_term inc out (el (pr_lg s)) q HIe). lia.
    - (* an answer *)
      apply rserve_inv in H. cbv zeta in H.
      destruct H as (r & later & Ef & Hup & Hrl & (r' & Hr' & Ec' & Et' & Hq) & ->).
      set (t := p_term (nodes (el (pr_lg s)) c)) in *.
      pose proof (req_from_head _ _ _ _ _ _ Ef) as Hkey. apply req_is_spec in Hkey. destruct Hkey as (Ec & Et & Ex).
      assert (Hin : In r (pr_reqs s)) by (apply (req_from_incl c t ctx); rewrite Ef; left; reflexivity).
      constructor; cbn [pr_lg pr_reqs pr_hacks pr_served]; try assumption.
      intros c0 t0 ctx0 idx0 [Hs|Hs]; [|apply R5; exact Hs]. inversion Hs; subst c0 t0 ctx0 idx0.
      exists (rq_snap r). split; [rewrite <- Ec at 1; rewrite <- Et, <- Ex; rewrite <- req_eta; exact Hin|].
      intros T k HTk. destruct (N.le_gt_cases T t) as [Hle|Hgt].
      + split; [exact Hle|]. apply (R3 r T k Hin HTk). rewrite Et. exact Hle.
      + exfalso. destruct (R4 r T k Hin HTk) as (Q & HQ & HQd & HQa); [rewrite Et; lia|].
        destruct (has_quorum_intersect inc out Q _ HQ Hq) as [Hi _].
        destruct (Hi inc_nonempty) as (v & _ & Hv1 & [<-|Hv2]).
        * pose proof (HQd c Hv1). pose proof (dterm_le_term inc out (el (pr_lg s)) c HIe). fold t in H0. lia.
        * apply ackers_In in Hv2. apply (HQa v r'); [rewrite Ec, Et, Ex, Ef; exact Hr'|congruence|congruence| |exact Hv1].
          rewrite Ec, Et. exact Hv2.
  Qed.

  Theorem rreachable_RInv s : rreachable s -> RInv s.
  Proof.
    induction 1 as [|s l s' Hr IH Hstep]; [apply RInv_init|]. eapply RInv_step; eassumption.
  Qed.
End RInv.

(* ------------------------------------------------------------------ *)
(** * C08: ReadIndex (Safe mode) is linearizable *)

Section C08.
  Variables (inc out : list N).
  Hypothesis inc_nonempty : inc <> [].
  Hypothesis Hmulti : no_single_quorum inc out.
  Notation rrule := (rrule inc out).
  Notation rreachable := (rreachable inc out).
  Notation rsteps := (rsteps inc out).

  (* Every answer carries the index recorded for a request of that node, term and
     context, and that index is at least every commit point that existed when the
     request was recorded -- all of which are of terms <= the leader's. *)
  Theorem read_linearizable s c t ctx idx : rreachable s -> In (c, t, ctx, idx) (pr_served s) ->
    exists snap, In (c, t, ctx, idx, snap) (pr_reqs s) /\
      forall T k, In (T, k) snap -> T <= t /\ (k <= idx)%nat.
  Proof. intros Hr. apply (r_served inc out s (rreachable_RInv inc out inc_nonempty Hmulti s Hr)). Qed.

  (* which steps record requests, acknowledgements and answers *)
  Theorem request_rule s l s' : rrule l s = Some s' ->
    pr_reqs s' = pr_reqs s \/
    exists c ctx, l = RReadReq c ctx /\
      p_up (nodes (el (pr_lg s)) c) = true /\ p_role (nodes (el (pr_lg s)) c) = PL /\
      pr_lg s' = pr_lg s /\
      pr_reqs s' = pr_reqs s ++ [(c, p_term (nodes (el (pr_lg s)) c), ctx, l_commit (ln (pr_lg s) c), cpts (pr_lg s))].
  Proof.
    intros H. destruct l as [ll|c ctx|q c t ctx|c ctx].
    - left. destruct (rlog_inv _ _ _ _ _ H) as (g & _ & ->). reflexivity.
    - right. apply rreadreq_inv in H. cbv zeta in H. destruct H as (Hup & Hrl & _ & _ & _ & ->).
      exists c, ctx. auto.
    - left. apply rhback_inv in H. destruct H as (_ & _ & _ & _ & ->). reflexivity.
    - left. apply rserve_inv in H. cbv zeta in H. destruct H as (r & later & _ & _ & _ & _ & ->). reflexivity.
  Qed.

  Theorem ack_rule s l s' : rrule l s = Some s' ->
    pr_hacks s' = pr_hacks s \/
    exists q c t ctx, l = RHbAck q c t ctx /\ pr_hacks s' = (q, c, t, ctx) :: pr_hacks s /\
      p_up (nodes (el (pr_lg s)) q) = true /\ p_term (nodes (el (pr_lg s)) q) = t /\
      exists idx snap, In (c, t, ctx, idx, snap) (pr_reqs s).
  Proof.
    intros H. destruct l as [ll|c ctx|q c t ctx|c ctx].
    - left. destruct (rlog_inv _ _ _ _ _ H) as (g & _ & ->). reflexivity.
    - left. apply rreadreq_inv in H. cbv zeta in H. destruct H as (_ & _ & _ & _ & _ & ->). reflexivity.
    - right. apply rhback_inv in H. destruct H as (Hup & Ht & _ & Hex & ->). exists q, c, t, ctx.
      repeat split; try assumption. apply existsb_req_In in Hex. destruct Hex as (r & Hin & <- & <- & <-).
      exists (rq_idx r), (rq_snap r). rewrite <- req_eta. exact Hin.
    - left. apply rserve_inv in H. cbv zeta in H. destruct H as (r & later & _ & _ & _ & _ & ->). reflexivity.
  Qed.

  (* an answer is produced on the node that recorded the request, while it is up and in the
     leader role of the term of the request *)
  Theorem serve_rule s l s' : rrule l s = Some s' ->
    pr_served s' = pr_served s \/
    exists c ctx idx, l = RReadServe c ctx /\
      pr_served s' = (c, p_term (nodes (el (pr_lg s)) c), ctx, idx) :: pr_served s /\
      p_up (nodes (el (pr_lg s)) c) = true /\ p_role (nodes (el (pr_lg s)) c) = PL.
  Proof.
    intros H. destruct l as [ll|c ctx|q c t ctx|c ctx].
    - left. destruct (rlog_inv _ _ _ _ _ H) as (g & _ & ->). reflexivity.
    - left. apply rreadreq_inv in H. cbv zeta in H. destruct H as (_ & _ & _ & _ & _ & ->). reflexivity.
    - left. apply rhback_inv in H. destruct H as (_ & _ & _ & _ & ->). reflexivity.
    - right. apply rserve_inv in H. cbv zeta in H. destruct H as (r & later & _ & Hup & Hrl & _ & ->).
      exists c, ctx, (rq_idx r). auto.
  Qed.

  (* the enabled-step form of the main theorem *)
  Theorem read_serve_linearizable s c ctx s' : rreachable s -> rrule (RReadServe c ctx) s = Some s' ->
    exists idx snap, pr_served s' = (c, p_term (nodes (el (pr_lg s)) c), ctx, idx) :: pr_served s /\
      In (c, p_term (nodes (el (pr_lg s)) c), ctx, idx, snap) (pr_reqs s) /\
      forall T k, In (T, k) snap -> T <= p_term (nodes (el (pr_lg s)) c) /\ (k <= idx)%nat.
  Proof.
    intros Hr H. assert (Hr' : rreachable s') by (eapply rreach_step; eassumption).
    destruct (serve_rule s _ s' H) as [E|(c0 & ctx0 & idx & El & Es & _ & _)].
    - exfalso. apply rserve_inv in H. cbv zeta in H. destruct H as (r & later & _ & _ & _ & _ & ->).
      cbn in E. apply (f_equal (@length _)) in E. cbn in E. lia.
    - inversion El; subst c0 ctx0. exists idx.
      destruct (read_linearizable s' c (p_term (nodes (el (pr_lg s)) c)) ctx idx Hr') as (snap & Hin & Hs); [rewrite Es; left; reflexivity|].
      exists snap. split; [exact Es|]. split; [|exact Hs].
      destruct (request_rule s _ s' H) as [E|(c1 & ctx1 & El1 & _)]; [rewrite <- E; exact Hin|discriminate].
  Qed.

  (* A leader that has been superseded -- a commit point of a later term existed when the
     request was recorded -- never answers that request. *)
  Theorem stale_leader_silent s r T k : rreachable s -> In r (pr_reqs s) ->
    In (T, k) (rq_snap r) -> rq_t r < T ->
    forall idx, ~ In (rq_c r, rq_t r, rq_ctx r, idx) (pr_served s).
  Proof.
    intros Hr Hin HTk HT idx Hs. pose proof (rreachable_RInv inc out inc_nonempty Hmulti s Hr) as HI.
    destruct (r_served inc out s HI _ _ _ _ Hs) as (snap & Hin' & Hsn).
    assert (E : (rq_c r, rq_t r, rq_ctx r, idx, snap) = r) by (apply (r_uniq inc out s HI); auto).
    rewrite <- E in HTk. cbn in HTk. destruct (Hsn T k HTk) as [Hle _]. lia.
  Qed.

  Lemma rsteps_reachable s s' : rreachable s -> rsteps s s' -> rreachable s'.
  Proof. intros Hr Hs. induction Hs as [|s s1 l s2 _ IH Hstep]; [exact Hr|]. eapply rreach_step; [apply IH; exact Hr|exact Hstep]. Qed.

  Lemma rsteps_reqs s s' r : rsteps s s' -> In r (pr_reqs s) -> In r (pr_reqs s').
  Proof.
    intros Hs Hin. induction Hs as [|s s1 l s2 _ IH Hstep]; [exact Hin|].
    destruct (request_rule s1 l s2 Hstep) as [E|(c & ctx & _ & _ & _ & _ & E)]; rewrite E; [auto|].
    apply in_or_app. left. auto.
  Qed.

  (* The property in its own words: the index answered for a request is at least the commit
     index ANY node had reached when the request was issued. *)
  Theorem read_index_ge_commit s0 c ctx s1 s idx : rreachable s0 ->
    rrule (RReadReq c ctx) s0 = Some s1 -> rsteps s1 s ->
    In (c, p_term (nodes (el (pr_lg s0)) c), ctx, idx) (pr_served s) ->
    idx = l_commit (ln (pr_lg s0) c) /\ forall n, (l_commit (ln (pr_lg s0) n) <= idx)%nat.
  Proof.
    intros Hr0 Hreq Hsteps Hs.
    assert (Hr1 : rreachable s1) by (eapply rreach_step; eassumption).
    pose proof (rsteps_reachable s1 s Hr1 Hsteps) as Hr.
    pose proof (rreachable_RInv inc out inc_nonempty Hmulti s Hr) as HI.
    set (t := p_term (nodes (el (pr_lg s0)) c)) in *.
    set (r0 := (c, t, ctx, l_commit (ln (pr_lg s0) c), cpts (pr_lg s0))).
    assert (Hin0 : In r0 (pr_reqs s)).
    { apply (rsteps_reqs s1 s r0 Hsteps). apply rreadreq_inv in Hreq. cbv zeta in Hreq.
      destruct Hreq as (_ & _ & _ & _ & _ & ->). cbn. apply in_or_app. right. left. reflexivity. }
    destruct (r_served inc out s HI _ _ _ _ Hs) as (snap & Hin & Hsn).
    assert (E : (c, t, ctx, idx, snap) = r0) by (apply (r_uniq inc out s HI); auto).
    inversion E; subst idx snap. split; [reflexivity|]. intros n.
    destruct (Nat.eq_dec (l_commit (ln (pr_lg s0) n)) 0) as [E0|Hpos]; [lia|].
    destruct (commit_le_cpt inc out inc_nonempty Hmulti (pr_lg s0) n (rreachable_lg inc out s0 Hr0)) as (T & k & HTk & Hk); [lia|].
    destruct (Hsn T k HTk) as [_ Hle]. lia.
  Qed.
End C08.

(* ------------------------------------------------------------------ *)
(** * A run, and why an acknowledgement must echo a request recorded before it *)

(* leader 1 commits index 2 in term 1 ([sc] of P/LogProofs.v), a read is requested with
   context 5, nodes 2 and 3 acknowledge, the read is answered with index 2 *)
Definition read_sc : list rlabel :=
  map RLog sc ++ [RReadReq 1 5; RHbAck 2 1 1 5; RHbAck 3 1 1 5; RReadServe 1 5].

Lemma read_sc_runs :
  exists s, rrun [1;2;3] [] read_sc rinit = Some s /\
    pr_served s = [(1, 1, 5, 2%nat)] /\ pr_reqs s = [(1, 1, 5, 2%nat, [(1, 2%nat)])].
Proof. eexists. split; [vm_compute; reflexivity|]. vm_compute. auto. Qed.

(* the acknowledgement rule WITHOUT the guard "the request exists already" *)
Definition rrule_early_ack (inc out : list N) (l : rlabel) (s : rst) : option rst :=
  match l with
  | RHbAck q c t ctx =>
      let p := nodes (el (pr_lg s)) q in
      if p_up p && (p_term p =? t) && negb (q =? c)
      then Some (mkRS (pr_lg s) (pr_reqs s) ((q, c, t, ctx) :: pr_hacks s) (pr_served s))
      else None
  | _ => rrule inc out l s
  end.

Fixpoint rrun_early_ack (inc out : list N) (ls : list rlabel) (s : rst) : option rst :=
  match ls with
  | [] => Some s
  | l :: rest => match rrule_early_ack inc out l s with
                 | Some s' => rrun_early_ack inc out rest s' | None => None end
  end.

(* node 2 acknowledges context 5 of leader 1 (term 1) before any such request; node 3 is
   elected in term 2 and commits index 3 with node 2; only then the partitioned leader 1
   records a read with context 5 and answers it, with index 2, on the strength of the old
   acknowledgement *)
Definition early_ack_attack : list rlabel :=
  map RLog sc ++ [RHbAck 2 1 1 5] ++
  map RLog
    [LAdopt 3 2; LEl (LCampaign 3); LEl (LImage 3); LEl (LFsync 3); LEl (LReleaseReq 3 2);
     LEl (LGrant 2 3 2); LEl (LImage 2); LEl (LFsync 2); LEl (LReleaseGrant 2 2);
     LEl (LRecvGrant 3 2); LEl (LBecomeLeader 3); LLogImage 3; LLogFsync 3;
     LAdopt 2 3; LMkAck 2 3%nat; LLogImage 2; LLogFsync 2; LRelAck 2 2 3%nat; LCommitL 3 3%nat] ++
  [RReadReq 1 5; RReadServe 1 5].

Lemma early_ack_unsafe :
  exists s, rrun_early_ack [1;2;3] [] early_ack_attack rinit = Some s /\
    pr_served s = [(1, 1, 5, 2%nat)] /\ l_commit (ln (pr_lg s) 3) = 3%nat /\
    pr_reqs s = [(1, 1, 5, 2%nat, [(2, 3%nat); (1, 2%nat)])].
Proof. eexists. split; [vm_compute; reflexivity|]. vm_compute. auto. Qed.

Lemma guarded_ack_rejects_attack : rrun [1;2;3] [] early_ack_attack rinit = None.
Proof. vm_compute. reflexivity. Qed.
