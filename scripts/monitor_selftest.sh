#!/bin/sh
# Self-test of the runtime monitors (harness/src/monitor.rs): every monitor is run with an
# injected fault (--inject corrupts the monitor's OBSERVATION or ghost state, never the
# library) and must print FAIL; the printed FAIL arguments must replay to the same output.
# usage: scripts/monitor_selftest.sh [path-to-vharness] [seed]
V=${1:-$(dirname "$0")/../build/target/debug/vharness}
SEED=${2:-5}
# findings of the unchanged library are skipped so that the injected fault is what fires
IG="panic:term_should_be_set,assert_eq_last_index_self_raft_log_persisted,stuck-request-snapshot"
bad=0
for pair in no_panic:no_panic election_safety:election_safety sm_safety:sm_safety log_matching:log_matching \
    ready_contract:ready_contract ready_contract:ready_contract_sync prevote:prevote vote_restriction:vote_restriction \
    flow_control:flow_control flow_control:flow_control_window commit_rule:commit_rule \
    persist_before_send:persist_before_send conf_change:conf_change conf_change:conf_change_pending \
    conf_change:conf_change_divergence transfer:transfer snapshot:snapshot read_index:read_index \
    leader_completeness:leader_completeness progress:progress all:sm_safety; do
  prop=${pair%%:*}; inj=${pair##*:}
  out=$($V monitor --prop $prop --runs 60 --steps 500 --seed $SEED --inject $inj --ignore $IG)
  fl=$(printf "%s\n" "$out" | grep '^FAIL ' | head -1)
  rs=$(printf "%s\n" "$out" | grep '^REASON ' | head -1 | cut -c8-80)
  if [ -z "$fl" ]; then echo "SELFTEST-BAD $prop/$inj: no FAIL ($(printf "%s\n" "$out" | head -1))"; bad=1; continue; fi
  a=$(printf "%s\n" "$out" | md5sum | cut -c1-8)
  b=$($V monitor ${fl#FAIL } | md5sum | cut -c1-8)
  if [ "$a" = "$b" ]; then echo "selftest ok  $prop/$inj: $rs"; else echo "SELFTEST-BAD $prop/$inj: replay differs"; bad=1; fi
done
# control: an unknown injection name injects nothing
out=$($V monitor --prop election_safety --runs 20 --steps 300 --seed $SEED --inject none)
case "$out" in MONITOR-OK*) echo "selftest ok  control (no injection): MONITOR-OK";; *) echo "SELFTEST-BAD control"; bad=1;; esac
exit $bad
