#!/bin/bash
# differential for any component: usage: c19_diff.sh DIR PREFIX  -- runs the extracted model on every shard and compares
DIR=$1; P=$2; bad=0
for c in $DIR/$P.cases.*.txt; do
  i=${c/.cases./.impl.}
  /work/c19/ocaml/_build/default/driver.exe < $c > ${c/.cases./.model.} &
done
wait
for c in $DIR/$P.cases.*.txt; do
  i=${c/.cases./.impl.}; m=${c/.cases./.model.}
  if ! cmp -s $m $i; then bad=$((bad+1)); echo "DISAGREE $c"; fi
done
echo "shards_bad=$bad"
